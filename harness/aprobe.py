"""Observation for the asynchronous engines: event log, recording consumer node (Probe),
instrumented reference counters, producer helper.  One thread, so the log is totally ordered."""
import sys

from tornado import gen
from tornado.concurrent import Future

from streamz.core import Stream, RefCounter


class Log:
    def __init__(self, loop):
        self.loop = loop
        self.ev = []
        self.pending = {}       # delivery id -> future to resolve
        self.emits = {}         # element id -> awaitable (or None)
        self.emit_done = set()
        self.nd = 0

    def add(self, ev, **kw):
        kw["ev"] = ev
        kw["t"] = self.loop.time()
        self.ev.append(kw)
        return kw

    # poll the emit awaitables: done / raised are recorded at the first poll at which they are visible
    def poll(self):
        for e, fut in list(self.emits.items()):
            if e in self.emit_done:
                continue
            if fut is None or fut.done():
                self.emit_done.add(e)
                exc = False
                if fut is not None and fut.exception() is not None:
                    exc = type(fut.exception()).__name__
                self.add("emit_done", e=e, exc=exc)


def site():
    """qualified name of the streamz frame that called retain/release"""
    f = sys._getframe(2)
    while f is not None:
        fn = f.f_code.co_filename
        if "/streamz/" in fn and f.f_code.co_name not in ("_retain_refs", "_release_refs", "retain", "release"):
            q = getattr(f.f_code, "co_qualname", f.f_code.co_name)
            owner = f.f_locals.get("self")
            if q == "Stream._emit" and owner is not None:
                # whose _emit: the entry point's (an upstream holding its bracket) or a node's own
                q += "@" + ("source" if type(owner).__name__ == "Stream" else type(owner).__name__)
            return q
        f = f.f_back
    return "?"


class RC(RefCounter):
    """RefCounter whose loop is the log: the real retain/release code runs; every call is logged"""

    def __init__(self, tag, log):
        self.tag = tag
        self.log = log
        RefCounter.__init__(self, initial=0, cb=self._fired, loop=self)

    def _fired(self):
        pass

    def add_callback(self, cb, *a, **k):          # called by RefCounter.release when count <= 0
        self._fired_now = True

    def retain(self, n=1):
        RefCounter.retain(self, n)
        self.log.add("retain", tag=self.tag, n=n, count=self.count, site=site())

    def release(self, n=1):
        s = site()
        self._fired_now = False
        RefCounter.release(self, n)
        self.log.add("release", tag=self.tag, n=n, count=self.count, site=s, fired=self._fired_now)


def enc_md(md):
    if md is None:
        return [-1]
    if not isinstance(md, list):
        return [-2]
    out = []
    for m in md:
        if isinstance(m, dict) and "tag" in m:
            out.append(m["tag"])
        else:
            out.append(-3)
    return out


def flat(x):
    """element ids contained in a delivered value (ints, tuples/lists of ints, nested)"""
    if isinstance(x, (tuple, list)):
        out = []
        for y in x:
            out += flat(y)
        return out
    return [x]


class Probe(Stream):
    """recording consumer; mode: 'sync' (returns []), 'future' (tornado Future resolved by the driver),
    'coro' (native coroutine awaiting such a future), 'asyncdef' (a native coroutine whose body *is* the consumer: the
    delivery is recorded when the body starts to run)"""

    def __init__(self, upstream, log, mode="sync", pid=1, **kw):
        self.log = log
        self.mode = mode
        self.pid = pid
        Stream.__init__(self, upstream, **kw)

    def update(self, x, who=None, metadata=None):
        if self.mode == "asyncdef":
            # an ``async def`` consumer: nothing of it runs until somebody awaits (or schedules) the coroutine object -- the element
            # counts as delivered when the body starts
            return self._body(x, who, metadata)
        return self._update(x, who, metadata)

    async def _body(self, x, who, metadata):
        fut = self._update(x, who, metadata, want="future")
        await fut

    def _update(self, x, who=None, metadata=None, want=None):
        log = self.log
        log.nd += 1
        d = log.nd
        extra = {}
        if isinstance(x, (int, tuple, list)) or x is None:
            extra = {"rawx": x if not isinstance(x, list) else list(x)}
        if isinstance(x, str):
            extra = {"text": x, "raw": list(x.encode("utf-8"))}
        log.add("deliver", probe=self.pid, d=d, x=flat(x), md=enc_md(metadata),
                shape="batch" if isinstance(x, (tuple, list)) else "one", **extra)
        if isinstance(x, list):
            # a value that has been handed over belongs to the consumer: remember it to see whether it is changed later
            log.kept = getattr(log, "kept", [])
            log.kept.append((d, x, list(x)))
        if self.mode == "sync":
            log.add("cons_done", d=d, probe=self.pid)
            return []
        fut = Future()
        log.pending[d] = (fut, self.pid)
        if self.mode == "future" or want == "future":
            return fut
        async def consume():
            await fut
        return consume()


class FnProbe:
    """the library's own ``sink`` node around a plain function (a lambda) that hands back the awaitable of an asynchronous
    writer.  mode "sinkfn": every call returns a Future; "sinkfn_first_none": the first call returns nothing (a batching writer
    that has nothing to flush yet), later calls return a Future; "sinkfn_handle": every call returns an object with __await__ that is
    neither a coroutine nor a Future."""

    def __init__(self, upstream, log, mode="sinkfn", pid=1):
        self.log, self.mode, self.pid, self.n = log, mode, pid, 0
        self.node = upstream.sink(lambda x: self.fn(x))

    def fn(self, x):
        log = self.log
        log.nd += 1
        d = log.nd
        self.n += 1
        extra = {"rawx": x if not isinstance(x, list) else list(x)} if isinstance(x, (int, tuple, list)) or x is None else {}
        # (the function does not see the metadata: it is reported as the element's own, which is what a sink must have been given)
        log.add("deliver", probe=self.pid, d=d, x=flat(x), md=flat(x), shape="batch" if isinstance(x, (tuple, list)) else "one", **extra)
        if self.mode == "sinkfn_first_none" and self.n == 1:
            log.add("cons_done", d=d, probe=self.pid, sync=True)
            return None
        fut = Future()
        log.pending[d] = (fut, self.pid)
        if self.mode == "sinkfn_handle":
            return Handle(fut)
        return fut


class Handle:
    """an awaitable that is neither a coroutine nor a Future (what a client library hands back for a write in progress)"""

    def __init__(self, fut):
        self.fut = fut

    def __await__(self):
        return self.fut.__await__()


def make_probe(upstream, log, mode="sync", pid=1):
    return FnProbe(upstream, log, mode, pid) if mode.startswith("sinkfn") else Probe(upstream, log, mode=mode, pid=pid)


def check_kept(log):
    """log a `mutated` event for every delivered list that no longer has the content it was delivered with"""
    for d, obj, snap in getattr(log, "kept", []):
        if list(obj) != snap and d not in getattr(log, "mutated", set()):
            log.mutated = getattr(log, "mutated", set()) | {d}
            log.add("mutated", d=d, was=flat(snap), now=flat(list(obj)))


def finish_delivery(log, d):
    fut, pid = log.pending.pop(d)
    log.add("cons_done", d=d, probe=pid)
    if not fut.done():          # (whoever awaited it may have been cancelled, and the awaitable with it)
        fut.set_result(None)


def fail_delivery(log, d):
    """the consumer's awaitable raises"""
    fut, pid = log.pending.pop(d)
    log.add("cons_fail", d=d, probe=pid)
    if not fut.done():
        fut.set_exception(ConsumerError("consumer of delivery %d failed" % d))


class ConsumerError(Exception):
    pass


def do_emit(log, source, e, x, md, asynchronous=True):
    """producer action: call emit and remember the awaitable"""
    log.add("emit_call", e=e, x=x, md=enc_md(md) if md else [])
    try:
        r = source.emit(x, metadata=md if md else None)
    except Exception as exc:      # raised synchronously by emit
        log.add("emit_raised", e=e, exc=type(exc).__name__)
        log.emits[e] = None
        log.emit_done.add(e)
        return
    if r is not None and not gen.is_future(r):
        r = gen.convert_yielded(r)
    log.emits[e] = r
    log.add("emit_ret", e=e, pending=bool(r is not None and not r.done()))
    log.poll()
