"""Build real streamz pipelines from catalogue programs; observation probes; projections.

Everything here runs inside a driver subprocess that imports streamz from /repo's working tree.
Observation is add-only: update()/_emit() of the node classes are wrapped in this process to
append to a log; the wrapped method is the real one and its result is returned unchanged.
"""
import gc

import streamz
from streamz import core as score
from streamz.core import Stream, RefCounter

# ------------------------------------------------------------------------------------ encoding


def enc(v):
    if isinstance(v, bool):
        return ["?", repr(v)]
    if isinstance(v, int):
        return ["i", v]
    if isinstance(v, tuple):
        return ["t", [enc(x) for x in v]]
    if isinstance(v, list):
        return ["l", [enc(x) for x in v]]
    if isinstance(v, dict) and all(isinstance(k, int) and not isinstance(k, bool) for k in v):
        # a frequency table: pairs (value, count) sorted by value
        return ["t", [["t", [enc(k), enc(v[k])]] for k in sorted(v)]]
    return ["?", repr(v)[:40]]


def dec(e):
    if e[0] == "i":
        return e[1]
    if e[0] == "t":
        return tuple(dec(x) for x in e[1])
    raise ValueError(e)


def enc_md(md):
    """metadata -> list of tag ids; anything that is not a flat list of our dicts is made visible"""
    if md is None:
        return [-1]
    if not isinstance(md, list):
        return [-2]
    out = []
    for m in md:
        if isinstance(m, dict) and "tag" in m:
            out.append(m["tag"])
        elif isinstance(m, list):
            out.append(-3)           # nested list: metadata is not flat
        elif m is None:
            out.append(-4)
        else:
            out.append(-5)
    return out

# -------------------------------------------------------------------------------- user functions


class Injected(Exception):
    pass


class Plan:
    """which user-function invocations of the current public call raise (and what they raise)"""
    ncall = 0
    fail_at = frozenset()
    exc = None          # exception class to raise; None: Injected

    @classmethod
    def reset(cls, fail_at=()):
        cls.ncall = 0
        cls.fail_at = frozenset(fail_at)

    @classmethod
    def tick(cls):
        cls.ncall += 1
        if cls.ncall in cls.fail_at:
            raise (cls.exc or Injected)("injected failure at invocation %d" % cls.ncall)


def _uf(f):
    def g(*a, **k):
        Plan.tick()
        return f(*a, **k)
    g.__name__ = getattr(f, "__name__", "f")
    return g


FUNCS = {
    "inc": lambda x: x + 1,
    "dbl": lambda x: 2 * x,
    "dm3": lambda x: (2 * x) % 3,
    "id": lambda x: x,
    "pair": lambda x: (x, x + 1),
    "wrap": lambda x: (x,),
    "rep": lambda x: tuple(range(1, x + 1)),
    "fst": lambda x: x[0],
}
# the Batch collection (streamz/batch.py): the catalogue function is given to Batch.map / .filter / .pluck, which build a
# stream-level map through collection.map_partitions; SyncFlow knows the resulting node as map with f = "b_..."
BATCH = {
    "b_inc": lambda b: b.map(_uf(FUNCS["inc"])),
    "b_pair": lambda b: b.map(_uf(FUNCS["pair"])),
    "b_even": lambda b: b.filter(_uf(PREDS["even"])),
    "b_pl1": lambda b: b.pluck(1),
}
STARFUNCS = {
    "add2": lambda a, b: a + b,
    "tup": lambda *a: tuple(a),
    "snd": lambda *a: a[-1],
}
PREDS = {
    "even": lambda x: x % 2 == 0,
    "pos": lambda x: x > 0,
    "true": lambda x: True,
    "lt2": lambda x: x < 2,
}
REMOVED = {"odd": "even", "ge2": "lt2"}      # filter predicate of the specification -> what the program removes
KEYS = {
    "id": lambda x: x,
    "mod2": lambda x: x % 2,
    "zero": lambda x: 0,
}
BINS = {
    "add": lambda s, x: s + x,
    "max": lambda s, x: x if x > s else s,
    "addrs": lambda s, x: (s + x, s),
}

# --------------------------------------------------------------------------------------- probes


class FakeLoop:
    """stands in for the IOLoop of a RefCounter: records scheduled completion callbacks"""

    def __init__(self, sink):
        self.sink = sink

    def add_callback(self, cb, *a, **k):
        self.sink.append(cb.tag)


class TagCb:
    def __init__(self, tag):
        self.tag = tag

    def __call__(self):
        pass


class Obs:
    """global observation state of one run"""
    dlog = []
    elog = []
    cbs = []
    callno = 0
    enabled = False

    @classmethod
    def reset(cls):
        cls.dlog = []
        cls.elog = []
        cls.cbs = []
        cls.callno = 0


_wrapped = set()


def _wrap_update(cls):
    if "update" not in cls.__dict__ or cls in _wrapped:
        return
    _wrapped.add(cls)
    orig = cls.__dict__["update"]

    def update(self, x, who=None, metadata=None):
        vid = getattr(self, "_vid", None)
        if vid is not None and Obs.enabled:
            Obs.dlog.append([vid, getattr(who, "_vid", 0) if who is not None else 0, enc(x), enc_md(metadata),
                             Obs.callno])
        return orig(self, x, who=who, metadata=metadata)
    update.__wrapped__ = orig
    update.__name__ = "update"
    cls.update = update


def _wrap_emit():
    if "_emit" in _wrapped:
        return
    _wrapped.add("_emit")
    orig = Stream.__dict__["_emit"]

    def _emit(self, x, metadata=None):
        vid = getattr(self, "_vid", None)
        if vid is not None and Obs.enabled:
            Obs.elog.append([vid, enc(x), enc_md(metadata) if metadata is not None else [], Obs.callno])
        return orig(self, x, metadata=metadata)
    _emit.__wrapped__ = orig
    Stream._emit = _emit


def install_probes():
    import streamz.sinks as ssinks
    for cls in [Stream] + [getattr(score, n) for n in (
            "map", "starmap", "filter", "accumulate", "slice", "partition", "partition_unique",
            "sliding_window", "unique", "flatten", "pluck", "collect", "union", "zip", "combine_latest",
            "zip_latest", "buffer", "delay", "rate_limit", "timed_window", "timed_window_unique",
            "latest", "map_async")] + [ssinks.sink]:
        _wrap_update(cls)
    _wrap_emit()

# ------------------------------------------------------------------------------------- building


class Built:
    def __init__(self, prog, nodes, sinks_out, tags):
        self.prog = prog
        self.nodes = nodes          # index 0 unused; nodes[i] is node i
        self.sink_out = sinks_out   # vid -> list
        self.tags = tags            # tag id -> metadata dict


def make_tags(ntags, cbs):
    loop = FakeLoop(cbs)
    tags = {}
    for t in range(ntags):
        d = {"tag": t}
        if t % 3 != 2:
            d["ref"] = RefCounter(initial=0, cb=TagCb(t), loop=loop)
        tags[t] = d
    return tags


def build(prog, ntags=0, stream_kwargs=None, sink_factory=None):
    """Construct the pipeline.  Forward references in ups (feedback edges) are connected
    afterwards with connect()."""
    skw = dict(stream_kwargs or {})
    nodes = [None]
    sink_out = {}
    later = []
    pending = {}
    for i, nd in enumerate(prog, start=1):
        k = nd["kind"]
        ups_now = [u for u in nd["ups"] if u < i]
        for u in nd["ups"]:
            if u >= i:
                later.append((u, i))
        U = [nodes[u] for u in ups_now]
        if k == "stream":
            if U:
                s = Stream(upstream=U[0])
            else:
                s = Stream(**skw)
        elif k == "map" and nd["f"] in BATCH:
            from streamz.batch import Batch
            s = BATCH[nd["f"]](Batch(stream=U[0])).stream
        elif k == "map":
            s = U[0].map(_uf(FUNCS[nd["f"]]))
        elif k == "starmap" and nd["f"] == "cat":
            # map_partitions over two streaming collections builds zip + map(apply_args) in one call: the zip node of the
            # program (kind zip, f = "batch") was left pending for this node
            s = pending.pop(nd["ups"][0])
        elif k == "starmap":
            s = U[0].starmap(_uf(STARFUNCS[nd["f"]]))
        elif k == "filter":
            # (the aliases of the fluent API: remove(p) = filter(not p), concat() = flatten(), scan = accumulate)
            s = U[0].remove(_uf(PREDS[REMOVED[nd["f"]]])) if nd["f"] in REMOVED else U[0].filter(_uf(PREDS[nd["f"]]))
        elif k == "accumulate":
            kw = {}
            if nd["lits"] and nd["f"] != "freq":
                kw["start"] = dec(nd["lits"][0])
            if nd["b1"]:
                kw["returns_state"] = True
            if nd["b2"]:
                kw["with_state"] = True
            if nd["f"] == "bsum":
                from streamz.batch import Batch
                s = Batch(stream=U[0]).sum().stream
                s._vid = i
                nodes.append(s)
                continue
            s = U[0].frequencies() if nd["f"] == "freq" else \
                (U[0].scan if nd.get("m") == 1 else U[0].accumulate)(_uf(BINS[nd["f"]]), **kw)
        elif k == "slice":
            s = U[0].slice(nd["n"], None if nd["m"] == -1 else nd["m"], nd["k"])
        elif k == "partition":
            kw = {}
            if nd["f"] != "none":
                kw["key"] = _uf(KEYS[nd["f"]])
            s = U[0].partition(nd["n"], **kw)
        elif k == "partition_unique":
            s = U[0].partition_unique(nd["n"], key=_uf(KEYS[nd["f"]]), keep="last" if nd["b1"] else "first")
        elif k == "sliding_window":
            s = U[0].sliding_window(nd["n"], return_partial=nd["b1"])
        elif k == "unique":
            kw = dict(key=_uf(KEYS[nd["f"]]), hashable=nd["b1"])
            if nd["m"]:
                kw["maxsize"] = nd["m"]
            s = U[0].unique(**kw)
        elif k == "flatten" and nd["f"] == "batch":
            from streamz.batch import Batch
            s = Batch(stream=U[0]).to_stream()
        elif k == "flatten":
            s = U[0].concat() if nd.get("b1") else U[0].flatten()
        elif k == "pluck":
            s = U[0].pluck(list(nd["lits"]) if nd["b1"] else nd["lits"][0])
        elif k == "collect":
            # (b1: the caller supplies the container -- same semantics, another construction path)
            if nd.get("m"):
                s = U[0].collect(cache=__import__("collections").deque(maxlen=nd["m"]))     # a bounded container of the caller's
            else:
                s = U[0].collect(cache=__import__("collections").deque()) if nd.get("b1") else U[0].collect()
        elif k == "union":
            s = U[0].union(*U[1:])
        elif k == "zip" and nd["f"] == "batch":
            from streamz.batch import Batch
            from streamz.collection import map_partitions
            res = map_partitions(_uf(lambda a, b: list(a) + list(b)), Batch(stream=U[0]), Batch(stream=U[1]))
            pending[i] = res.stream
            s = res.stream.upstreams[0]
        elif k == "zip":
            args = list(U)
            for pos, val in nd["lits"]:
                args.insert(pos, dec(val))
            # (m > 0: zip(maxsize=m) -- the bound only holds producers back, it never changes what is delivered)
            s = streamz.zip(*args, maxsize=nd["m"]) if nd.get("m") else streamz.zip(*args)
        elif k == "combine_latest":
            kw = {}
            if sorted(nd["eon"]) != list(range(1, len(nd["ups"]) + 1)):
                kw["emit_on"] = [e - 1 for e in nd["eon"]] if len(nd["eon"]) > 1 else nd["eon"][0] - 1
            s = streamz.combine_latest(*U, **kw)
        elif k == "zip_latest":
            s = streamz.zip_latest(*U)
        elif k == "sink":
            out = []
            sink_out[i] = out
            if sink_factory is not None:
                s = sink_factory(U[0], out, i)
            else:
                s = U[0].sink(_uf(out.append))
        else:
            raise ValueError(k)
        s._vid = i
        nodes.append(s)
    for u, d in later:
        nodes[u].connect(nodes[d])
    return Built(prog, nodes, sink_out, None)


def destroy(built):
    """detach sinks from the global registry so that programs do not pile up"""
    from streamz import sinks as ssinks
    for s in built.nodes[1:]:
        try:
            ssinks._global_sinks.discard(s)
        except Exception:
            pass

# ----------------------------------------------------------------------------------- projection


def _opt(v, present):
    return [enc(v)] if present else []


def project_node(s, nd):
    k = nd["kind"]
    if k == "accumulate":
        return [] if s.state is score.no_default else [enc(s.state)]
    if k == "slice":
        if not isinstance(s.state, int):
            raise TypeError("unknown representation")
        return {"cnt": s.state}
    if k == "partition":
        return [{"k": ["i", -1] if key is None else enc(key), "buf": [enc(x) for x in s._buffer[key]],
                 "md": enc_md(list(s._metadata_buffer[key]))} for key in list(s._buffer.keys())]
    if k == "partition_unique":
        return [{"k": enc(key), "x": enc(s._buffer[key]), "md": enc_md(s._metadata_buffer[key])}
                for key in list(s._buffer.keys())]
    if k == "sliding_window":
        if isinstance(s._buffer, dict) or isinstance(s.metadata_buffer, dict):
            raise TypeError("unknown representation")
        return {"buf": [enc(x) for x in s._buffer], "md": [enc_md(m) for m in s.metadata_buffer]}
    if k == "unique":
        if isinstance(s.seen, list):
            return [enc(y) for y in s.seen]
        if nd["m"]:
            return [enc(y) for y in s.seen.order]
        return [enc(y) for y in s.seen.keys()]
    if k == "collect":
        if isinstance(s.cache, dict) or isinstance(s.metadata_cache, dict):
            raise TypeError("unknown representation")
        return {"cache": [enc(x) for x in s.cache], "md": enc_md(list(s.metadata_cache))}
    if k == "zip":
        if not isinstance(s.buffers, dict):
            raise TypeError("unknown representation")
        return [[[enc(x), enc_md(m)] for (x, m) in s.buffers[up]] for up in s.upstreams]
    if k in ("combine_latest", "zip_latest"):
        if not (isinstance(s.last, list) and isinstance(s.metadata, list) and len(s.last) == len(s.upstreams) == len(s.metadata)):
            raise TypeError("unknown representation")
        d = {"last": [[] if s.metadata[i] is None else [enc(s.last[i])] for i in range(len(s.last))],
             "md": [[] if s.metadata[i] is None else [enc_md(s.metadata[i])] for i in range(len(s.metadata))],
             "missing": sorted(s.upstreams.index(u) + 1 for u in s.missing)}
        if k == "zip_latest":
            d["lbuf"] = [[enc(x), enc_md(m)] for (x, m) in s.lossless_buffer]
        return d
    return []


def project(built, opaque=None):
    """internal state of every node as SyncFlow records it.  The projection reads private attributes; when a node's
    representation is not the one known here (a refactoring that keeps the behaviour), the node is reported in `opaque`
    and its state is simply not compared -- behaviour (deliveries, emissions, counters) still is."""
    out = []
    for i, nd in enumerate(built.prog, start=1):
        try:
            out.append(project_node(built.nodes[i], nd))
        except Exception:
            out.append([])
            if opaque is not None:
                opaque.append(i)
    return out


def project_downs(built):
    return [[getattr(d, "_vid", -1) for d in list(s.downstreams)] for s in built.nodes[1:]]


def project_rc(tags, ntags):
    return [tags[t]["ref"].count if "ref" in tags[t] else 0 for t in range(ntags)]
