"""Common machinery of the checks: engine results, caching keyed on the tree contents,
known-findings matching, evidence and replay files."""
import hashlib
import json
import os
import subprocess
import sys
import time

VERIF = os.path.dirname(os.path.dirname(os.path.abspath(__file__)))
REPO = os.environ.get("VERIF_REPO", "/repo")
PY = "/venv/bin/python"
WORK = os.path.join(VERIF, ".work")
EVID = os.path.join(VERIF, "evidence")
REPLAYS = os.path.join(VERIF, "replays")
GUARD = "STREAMZ_VERIF"


def tree_hash(extra=()):
    h = hashlib.sha256()
    roots = [os.path.join(REPO, "streamz"), os.path.join(VERIF, "harness"), os.path.join(VERIF, "specs")]
    for root in roots:
        for d, dirs, files in sorted(os.walk(root)):
            dirs[:] = sorted(x for x in dirs if x not in ("__pycache__", "tests"))
            for f in sorted(files):
                if f.endswith((".py", ".tla", ".cfg", ".json")):
                    p = os.path.join(d, f)
                    h.update(p.encode())
                    with open(p, "rb") as fh:
                        h.update(fh.read())
    for e in extra:
        h.update(str(e).encode())
    return h.hexdigest()[:20]


def driver_env():
    env = dict(os.environ)
    env["PYTHONHASHSEED"] = "0"
    env["PYTHONDONTWRITEBYTECODE"] = "1"
    env["PYTHONPATH"] = REPO + os.pathsep + os.path.join(VERIF, "harness")
    env[GUARD] = "1"
    env.pop("JAVA_TOOL_OPTIONS", None)
    return env


def run_driver(script, args, timeout=1800):
    """run a driver in a fresh interpreter importing streamz from REPO's working tree"""
    cmd = [PY, "-B", os.path.join(VERIF, "harness", "drivers", script)] + [str(a) for a in args]
    p = subprocess.run(cmd, env=driver_env(), stdout=subprocess.PIPE, stderr=subprocess.PIPE, text=True,
                       timeout=timeout, cwd=VERIF)
    return p.returncode, p.stdout, p.stderr


class MachineryError(Exception):
    pass


class EngineResult:
    """what one engine (spec + driver + validation) found"""

    def __init__(self, name):
        self.name = name
        self.tlc_runs = []        # dicts: name, states, transitions, ok, violated, wall_s, cfg
        self.traces = 0
        self.accepted = 0
        self.replayed = 0         # spec->code behaviours replayed
        self.violations = []      # dicts: property, clause, what, detail, replay(dict)
        self.samples = []
        self.canaries = []        # dicts: name, detected
        self.notes = []
        self.nontrivial = 0
        self.evaluations = 0
        self.rule = ""

    def to_json(self):
        return self.__dict__

    @classmethod
    def from_json(cls, d):
        r = cls(d["name"])
        r.__dict__.update(d)
        return r


def cached(name, tier, seed, fn):
    """engine results are cached per (tree contents, tier, seed): several properties share one engine"""
    os.makedirs(os.path.join(WORK, "cache"), exist_ok=True)
    key = tree_hash((name, tier, seed))
    path = os.path.join(WORK, "cache", "%s-%s.json" % (name, key))
    if os.environ.get("VERIF_NOCACHE") != "1" and os.path.exists(path):
        try:
            with open(path) as f:
                d = json.load(f)
            if time.time() - d.get("_t", 0) < 6 * 3600:
                r = EngineResult.from_json(d["r"])
                r.notes = list(r.notes) + ["engine result reused from a run on the identical tree (%s)" % key]
                return r
        except Exception:
            pass
    r = fn()
    with open(path, "w") as f:
        json.dump({"_t": time.time(), "r": r.to_json()}, f)
    return r

# ------------------------------------------------------------------------------ known findings


def load_findings():
    p = os.path.join(VERIF, "known_findings.json")
    if not os.path.exists(p):
        return []
    with open(p) as f:
        return json.load(f)["findings"]


def match_finding(v, findings):
    """a violation is a known finding iff a 'known' entry for its property has a signature all of
    whose keys equal the violation's signature"""
    sig = v.get("signature") or {}
    for f in findings:
        if f.get("status") != "known" or f["property"] != v["property"]:
            continue
        fs = f.get("signature") or {}
        if fs and all(sig.get(k) == val for k, val in fs.items()):
            return f
    return None

# ---------------------------------------------------------------------------- evidence / replay


def write_replay(pid, payload):
    os.makedirs(REPLAYS, exist_ok=True)
    blob = json.dumps(payload, sort_keys=True, default=str)
    h = hashlib.sha256(blob.encode()).hexdigest()[:10]
    path = os.path.join(REPLAYS, "%s-%s.json" % (pid, h))
    with open(path, "w") as f:
        f.write(blob)
    return path


def write_evidence(pid, tier, seed, level, coverage, wall, violations, assumptions):
    os.makedirs(EVID, exist_ok=True)
    ev = {"property_id": pid, "tier": tier, "seed": seed, "level": level, "coverage": coverage,
          "assumptions": assumptions, "wall_s": round(wall, 2), "violations": violations}
    with open(os.path.join(EVID, pid + ".json"), "w") as f:
        json.dump(ev, f, indent=1, default=str)
    return ev


def finish(pid, tier, seed, engines, wall, level="model_checking", assumptions=(), extra_cov=None,
           select=None):
    """Combine engine results into verdict lines + evidence.  select(v) -> bool picks the violations
    that belong to this property (default: v['property'] == pid)."""
    findings = load_findings()
    viol, known = [], []
    for e in engines:
        for v in e.violations:
            if (select(v) if select else (v["property"] == pid or pid in v.get("also", ()))):
                v = dict(v)
                v["property"] = pid
                f = match_finding(v, findings)
                (known if f else viol).append((v, f))
    seen = set()
    for v, f in known:
        if f["id"] not in seen:
            seen.add(f["id"])
            print("KNOWN-FINDING: property=%s %s [%s]" % (pid, f["what"], f["id"]))
    shown = {}
    for v, _ in viol:
        key = json.dumps(v.get("signature"), sort_keys=True)
        shown[key] = shown.get(key, 0) + 1
        if shown[key] > 2 or len(shown) > 10:
            continue
        path = write_replay(pid, v)
        print("VIOLATION property=%s replay=%s" % (pid, path))
        print("  " + (v.get("what") or "")[:400])
    if viol:
        print("  (%d violating cases in %d classes)" % (len(viol), len(shown)))
    states = sum(r.get("states", 0) for e in engines for r in e.tlc_runs)
    trans = sum(r.get("transitions", 0) for e in engines for r in e.tlc_runs)
    samples = []
    for e in engines:
        samples += e.samples[:4]
    cov = {
        "states": states, "transitions": trans,
        "traces_validated_against_impl": sum(e.accepted + e.replayed for e in engines),
        "samples": samples[:12] or ["(none)"],
        "evaluations": sum(e.evaluations for e in engines),
        "distinct_nontrivial": sum(e.nontrivial for e in engines),
        "rule": " | ".join(e.rule for e in engines if e.rule),
        "tlc_runs": [r for e in engines for r in e.tlc_runs],
        "incomplete_tlc_runs": [r["name"] + ": " + str(r["incomplete"]) for e in engines for r in e.tlc_runs if r.get("incomplete")],
        "traces_recorded": sum(e.traces for e in engines),
        "canaries": [c for e in engines for c in e.canaries],
        "known_findings_met": sorted(seen),
        "notes": [n for e in engines for n in e.notes],
        "checker_cmd": "tlc (tla2tools.jar 1.8.0) via harness/tlc.py",
        "trusted_base": ["TLC", "harness projection functions", "virtual-time loop (async engines)"],
    }
    if extra_cov:
        cov.update(extra_cov)
    for line in cov["incomplete_tlc_runs"]:
        print("INCOMPLETE (nothing refuted in what was explored): " + line)
    bad_canary = [c for e in engines for c in e.canaries if not c.get("detected")]
    write_evidence(pid, tier, seed, level, cov, wall, len(viol), list(assumptions))
    if bad_canary:
        print("MACHINERY: binding canary not detected: %s" % bad_canary)
        return 2
    if states < 1 or trans < 1:
        print("MACHINERY: TLC explored no states")
        return 2
    return 1 if viol else 0
