"""Module-level functions submitted to the in-process dask cluster (the task graph is pickled even in-process).
GATES lets the driver decide when -- and therefore in which order -- tasks finish."""
import threading

GATES = {}
STARTED = []
FAIL = set()      # elements whose (gated) task raises


class TaskError(Exception):
    pass


def _maybe_fail(x):
    if x in FAIL:
        raise TaskError("task of element %r failed" % (x,))


def gate(x):
    ev = GATES.get(x)
    if ev is None:
        ev = GATES[x] = threading.Event()
    return ev


def gated_x10(x):
    STARTED.append(x)
    gate(x).wait(30)
    _maybe_fail(x)
    return x * 10


def inc(x):
    return x + 1


def add(a, b):
    return a + b


def gated_add(acc, x):
    STARTED.append(x)
    gate(x).wait(30)
    return acc + x


def pair_sum(a, b):
    return a + b


def gated_x10_minus(x):
    """x arrives incremented by one: the gate belongs to the original element"""
    STARTED.append(x - 1)
    gate(x - 1).wait(30)
    _maybe_fail(x - 1)
    return x * 10


def dup(x):
    return (x, x)


def gated_pair5(a, b):
    STARTED.append(a)
    gate(a).wait(30)
    return (a + b) * 5


def gated_x10_kw(x, key=0, retries=0, z=0):
    """keyword names chosen to collide with Client.submit's own parameters if they are not kept apart"""
    STARTED.append(x)
    gate(x).wait(30)
    return x * 10 + key + retries + z


def pair_kw(a, b, key=0, priority=0):
    STARTED.append(a)
    gate(a).wait(30)
    return (a + b) * 5 + key + priority


def ident(x):
    return x


def scaled(k, gated=False):
    """two functions made by this factory have the same __name__ (and the same extra arguments: none) and differ only in
    what they compute -- like two lambdas"""
    def apply(x):
        if gated:
            STARTED.append(x)
            gate(x).wait(30)
        return x * k
    return apply
