"""Driver for the asynchronous node modules: runs one real streamz node between producers and a
recording consumer on the virtual-time loop, under enumerated / random schedules, and writes the
observable event log of every run.

Schedule alphabet (a schedule is a string):
  e<k>  producer k (1..) emits its next element        d   finish the oldest unfinished consumer call
  D     finish the newest unfinished consumer call     s   run one loop iteration
  a     advance the clock to the next timer            w   advance the clock by one unit
  f     finish the oldest running map_async function   F   finish the newest running map_async function
Every run ends with a standard drain (finish everything, fire timers, run until nothing moves).
"""
import argparse
import itertools
import json
import logging
import os
import random
import sys
import warnings

sys.path.insert(0, os.path.dirname(os.path.dirname(os.path.abspath(__file__))))
warnings.simplefilter("ignore")
logging.disable(logging.CRITICAL)

import vloop     # noqa: E402
import aprobe    # noqa: E402
from tornado.concurrent import Future   # noqa: E402
from streamz import Stream              # noqa: E402
import streamz                          # noqa: E402


class Feeder(Stream):
    """a plain, loop-less entry point connected in front of the pipeline: its emit() calls the pipeline synchronously and drops
    whatever awaitables come back (like collect().flush(), or any caller that does not wait)"""


class Scenario:
    def __init__(self, cfg):
        self.cfg = cfg
        self.loop = vloop.install()
        self.log = aprobe.Log(self.loop)
        k = cfg["kind"]
        self.nsrc = cfg.get("nsrc", 1)
        self.sources = [Stream(asynchronous=True) for _ in range(self.nsrc)]
        s = self.sources[0]
        self.tasks = []          # map_async: (element, future) of running functions
        if k == "buffer":
            node = s.buffer(cfg["n"])
        elif k == "delay":
            node = s.delay(cfg["interval"])
        elif k == "rate_limit":
            node = s.rate_limit(cfg["interval"])
        elif k == "timed_window":
            node = s.timed_window(cfg["interval"])
        elif k == "timed_window_unique":
            node = s.timed_window_unique(cfg["interval"], key=lambda x: x % cfg.get("mod", 2), keep=cfg.get("keep", "first"))
        elif k == "partition":
            kw = {}
            if cfg.get("mod"):
                kw["key"] = lambda x: x % cfg["mod"]
            node = s.partition(cfg["n"], timeout=cfg.get("timeout"), **kw)
        elif k == "latest":
            node = s.latest()
            if cfg.get("oneshot"):
                # a subscriber in front of the watched consumer that takes itself away in the middle of a delivery (slice(0, n)
                # has seen its last element): whoever is subscribed behind it must not notice
                self.oneshot = node.slice(0, cfg["oneshot"])
                self.oneshot_sink = self.oneshot.sink(lambda x: None)
            if cfg.get("tail") == "zip_latest":
                # latest as the lossless input of a zip_latest whose other input already has a value
                self.other = Stream(asynchronous=True)
                self.tail = node.zip_latest(self.other).map(lambda t: t[0])
        elif k == "zip":
            node = streamz.zip(*self.sources, maxsize=cfg["maxsize"])
        elif k == "union":
            node = self.sources[0].union(*self.sources[1:])
        elif k == "map_async":
            async def fn(x):
                fut = Future()
                self.tasks.append((self.ident(x), fut))
                self.log.add("func_start", e=self.ident(x))
                await fut
                self.log.add("func_end", e=self.ident(x))
                return x
            def plain_fn(x):
                # a plain callable that checks its argument before it hands back an awaitable: it may raise at the call
                if getattr(self, "reject_next", False):
                    self.reject_next = False
                    self.log.add("func_reject", e=self.ident(x))
                    raise aprobe.ConsumerError("function rejects element %s" % (self.ident(x),))
                return fn(x)
            node = s.map_async(plain_fn if cfg.get("reject") else fn, parallelism=cfg["parallelism"])
        elif k in ("direct", "tree"):
            node = s
        elif k == "map":
            node = s.map(lambda x: x)
        elif k == "slice":
            node = s.slice(0, None, 1)
        elif k in ("j_zip_latest", "j_combine_latest", "j_zip", "j_union"):
            # a join whose other input has already delivered: every later element of s goes straight through
            other = Stream(asynchronous=True)
            self.other = other
            node = {"j_zip_latest": lambda: s.zip_latest(other), "j_combine_latest": lambda: s.combine_latest(other, emit_on=0),
                    "j_zip": lambda: s.zip(other.map(lambda x: x)), "j_union": lambda: s.union(other)}[k]()
            if k == "j_zip":
                node = node.map(lambda t: t[0])
            else:
                node = node.map(lambda t: t[0] if isinstance(t, tuple) else t)
        elif k == "union1":
            node = s.union()
        elif k == "pluckmap":
            node = s.map(lambda x: (x, x)).pluck(0)
        elif k == "flatmap":
            node = s.map(lambda x: (x,)).flatten()
        elif k == "filter":
            node = s.filter(lambda x: True)
        elif k == "starmap":
            node = s.map(lambda x: (x,)).starmap(lambda x: x)
        elif k == "accumulate":
            node = s.accumulate(lambda acc, x: x)
        elif k == "unique":
            node = s.unique()
        else:
            raise ValueError(k)
        self.node = node
        if k == "tree":
            # P1 on the source, then a map branch carrying P2, then P3 on the source: attachment order P1, (map->P2), P3
            modes = cfg["cons"]
            self.node = node = s
            self.probes = [aprobe.Probe(s, self.log, mode=modes[0], pid=1)]
            m = s.map(lambda x: x)
            self.probes.append(aprobe.Probe(m, self.log, mode=modes[1], pid=2))
            if len(modes) > 2:
                self.probes.append(aprobe.Probe(s, self.log, mode=modes[2], pid=3))
        else:
            self.probes = [aprobe.make_probe(getattr(self, "tail", node), self.log, mode=m, pid=i + 1)
                           for i, m in enumerate(cfg.get("cons", ["future"]))]
        if k in ("j_zip_latest", "j_combine_latest") or cfg.get("tail") == "zip_latest":
            self.other.emit(0)              # the other input has a value before any consumer exists
        self.feeders = None
        if cfg.get("feeder") == "plain":
            self.feeders = [Feeder() for _ in self.sources]
            for f, s_ in zip(self.feeders, self.sources):
                f.connect(s_)
        if cfg.get("feedback"):
            # a cycle through the node (examples/fib_*.py: node.sink(source.emit)): the consumer, while it is being handed an
            # element, emits the next one into the source -- an arrival in the middle of a delivery
            probe, orig = self.probes[0], self.probes[0].update

            def update(x, who=None, metadata=None):
                r = orig(x, who=who, metadata=metadata)
                if self.next_elem < cfg["max_elems"]:
                    self.next_elem += 1
                    e = self.next_elem
                    self.tags[e] = {"tag": e, "ref": aprobe.RC(e, self.log)}
                    self._emit(0, e)
                return r
            probe.update = update
        self.next_elem = 0
        self.idle_steps = 0      # consecutive loop iterations without an observable event (busy-wait detection)
        self.tags = {}
        self.per_src = [0] * self.nsrc

    # ---- observation of the node's internal state (cheap scalars / short lists)
    def obs(self):
        n, k = self.node, self.cfg["kind"]
        o = {"rc": [self.tags[t]["ref"].count for t in sorted(self.tags)]}
        try:
            if k in ("buffer", "delay"):
                o["q"] = [x for x, _ in n.queue._queue]
                o["putters"] = len([p for p in n.queue._putters if not p[1].done()])
                o["getters"] = len([g for g in n.queue._getters if not g.done()])
            elif k in ("timed_window",):
                o["buf"] = list(n._buffer)
            elif k == "timed_window_unique":
                o["buf"] = list(n._buffer.values())
            elif k == "partition":
                o["buf"] = [[key if key is not None else -1, list(v)] for key, v in n._buffer.items() if v]
                o["armed"] = sorted((0 if key is None else key) for key, h in n._callbacks.items()
                                    if getattr(h, "_scheduled", False) and not h.cancelled())
            elif k == "latest":
                o["slot"] = list(n.next)
            elif k == "zip":
                o["bufs"] = [[x for x, _ in n.buffers[u]] for u in n.upstreams]
            elif k == "rate_limit":
                o["next"] = n.next
            elif k == "map_async":
                o["qsize"] = n.work_queue.qsize()
        except Exception as e:      # projection must never kill a run
            o["obs_error"] = repr(e)[:80]
        if self.cfg.get("falsy"):
            for key in ("q", "buf", "slot", "bufs"):
                if key in o and k != "partition":
                    o[key] = self.ident(o[key])
            if k == "partition" and "buf" in o:
                o["buf"] = [[key, self.ident(v)] for key, v in o["buf"]]
        return o

    def op(self, c, arg=None):
        loop, log = self.loop, self.log
        n0 = len(log.ev)
        if c == "e":
            src = (arg or 1) - 1
            self.next_elem += 1
            e = self.next_elem
            self.tags[e] = {"tag": e, "ref": aprobe.RC(e, log)}
            loop.do(self._emit, src, e)
        elif c in ("d", "D"):
            if log.pending:
                d = min(log.pending) if c == "d" else max(log.pending)
                loop.do(aprobe.finish_delivery, log, d)
        elif c == "x":
            if log.pending:
                self.failed = True
                loop.do(aprobe.fail_delivery, log, min(log.pending))
        elif c in ("f", "F"):
            live = [(x, f) for x, f in self.tasks if not f.done()]
            if live:
                x, f = live[0] if c == "f" else live[-1]
                log.add("func_finish", e=x)
                loop.do(f.set_result, None)
        elif c == "X":
            # the input is taken away (upstream.disconnect(node)): what the node has received stays to be delivered
            self.disconnected = True
            log.add("disconnect")
            loop.do(self.sources[0].disconnect, self.node)
        elif c == "Y":
            # ... and given back (upstream.connect(node)): the node goes on as if nothing had happened
            self.disconnected = False
            log.add("reconnect")
            loop.do(self.sources[0].connect, self.node)
        elif c == "g":
            live = [(x, f) for x, f in self.tasks if not f.done()]
            if live:
                x, f = live[0]
                self.nfail = getattr(self, "nfail", 0) + 1
                log.add("func_fail", e=x)
                loop.do(f.set_exception, aprobe.ConsumerError("function of element %s failed" % x))
        elif c == "j":
            # the next call of the function raises at once
            self.nrej = getattr(self, "nrej", 0) + 1
            self.reject_next = True
        elif c == "R":
            # life-cycle calls travel upstream from any node (Stream.start / Stream.stop): on nodes that have no life cycle of
            # their own, and while everything is running anyway, they change nothing
            loop.do(self.probes[0].start)
        elif c == "Z":
            loop.do(self.probes[0].stop)
            loop.do(self.probes[0].start)
        elif c == "s":
            loop.step()
            # map_async polls for a free slot with sleep(0): the ready queue never empties while it waits
            self.idle_steps = self.idle_steps + 1 if len(log.ev) == n0 else 0
        elif c == "t":
            loop.step1()
            self.idle_steps = self.idle_steps + 1 if len(log.ev) == n0 else 0
        elif c == "a":
            t0 = loop.time()
            t = loop.advance()
            if t != t0:
                log.add("time", now=t)
        elif c == "w":
            t = loop.advance(1)
            log.add("time", now=t)
        log.poll()
        if c not in ("s", "t") and len(log.ev) > n0:
            self.idle_steps = 0
        if len(log.ev) > n0:
            log.ev[-1]["obs"] = self.obs()
            log.ev[-1]["op"] = c + (str(arg) if arg else "")

    def payload(self, e):
        """what is emitted for element e: its id, or -- cfg["falsy"] = {"none": e1, "zero": e2} -- a falsy value"""
        f = self.cfg.get("falsy") or {}
        return None if f.get("none") == e else 0 if f.get("zero") == e else e

    def ident(self, x):
        """payload(s) -> element id(s)"""
        f = self.cfg.get("falsy") or {}
        if isinstance(x, (list, tuple)):
            return [self.ident(y) for y in x]
        if x is None and "none" in f:
            return f["none"]
        if x == 0 and x is not False and "zero" in f:
            return f["zero"]
        return x

    def _emit(self, src, e):
        self.log.ev  # noqa
        self.log.add("src", e=e, src=src + 1)
        aprobe.do_emit(self.log, (self.feeders or self.sources)[src], e, self.payload(e), [self.tags[e]])

    def enabled(self, c, arg=None, max_elems=4):
        loop, log = self.loop, self.log
        if c == "e":
            return self.next_elem < max_elems and not getattr(self, "disconnected", False)
        if c == "X":
            return bool(self.cfg.get("disconnect")) and not getattr(self, "disconnected", False) and self.next_elem > 0
        if c == "Y":
            return bool(self.cfg.get("reconnect")) and getattr(self, "disconnected", False)
        if c in ("R", "Z"):
            return bool(self.cfg.get("lifecycle"))
        if c == "d":
            return bool(log.pending)
        if c == "D":
            return len(log.pending) > 1
        if c == "x":
            return bool(log.pending) and bool(self.cfg.get("faults")) and not getattr(self, "failed", False)
        if c == "f":
            return any(not f.done() for _, f in self.tasks)
        if c == "F":
            return sum(1 for _, f in self.tasks if not f.done()) > 1
        if c == "g":
            return bool(self.cfg.get("faults")) and getattr(self, "nfail", 0) < 3 and any(not f.done() for _, f in self.tasks)
        if c == "j":
            return bool(self.cfg.get("reject")) and getattr(self, "nrej", 0) < 2 and not getattr(self, "reject_next", False)
        if c == "s":
            return (loop.live_ready() > 0 or loop.due() > 0) and self.idle_steps < 6
        if c == "t":
            return loop.live_ready() > 0 and self.idle_steps < 12
        # the clock moves only while the loop is idle ("timers fire on time")
        if c == "a":
            nt = loop.next_timer()
            return loop.quiescent() and nt is not None and nt > loop.time()
        if c == "w":
            # (idle_wait: time may also pass while nothing at all is pending -- gaps between arrivals)
            return loop.quiescent() and (loop.next_timer() is not None or bool(self.cfg.get("idle_wait")))
        return False

    def drain(self):
        """standard suffix: let everything finish"""
        loop, log = self.loop, self.log
        log.add("drain")
        for _ in range(60):
            moved = False
            while (loop.live_ready() or loop.due()) and self.idle_steps < 6:
                self.op("s")
                moved = True
            if log.pending:
                self.op("d")
                moved = True
                continue
            if any(not f.done() for _, f in self.tasks):
                self.op("f")
                moved = True
                continue
            if self.idle_steps >= 6:
                break          # only a busy-wait is left
            if moved:
                continue
            # periodic nodes tick forever: stop advancing once nothing is held any more
            if self.holding() and loop.next_timer() is not None:
                self.op("a")
                continue
            break
        aprobe.check_kept(log)
        log.add("end", quiescent=not (log.pending or loop.live_ready()), obs=self.obs())

    def holding(self):
        """does the pipeline still hold undelivered data / unfinished emits?"""
        o = self.obs()
        held = any(o.get(k) for k in ("q", "buf", "bufs", "qsize")) or bool(o.get("putters"))
        unfinished = any(e not in self.log.emit_done for e in self.log.emits)
        k = self.cfg["kind"]
        if k in ("rate_limit", "delay", "latest", "map_async", "partition", "timed_window"):
            delivered = set()
            for ev in self.log.ev:
                if ev["ev"] == "deliver":
                    delivered.update(ev["x"])
            if k != "latest" and len(delivered) < self.next_elem:
                held = True
        return held or unfinished

    def close(self):
        vloop.uninstall(self.loop)


def plain_view(evs):
    """With a Feeder in front, the bracket that surrounds the pipeline's update() is the feeder's; the bracket of the
    pipeline's own entry node lies inside it.  Present the log as the specifications see a pipeline: the outermost bracket
    is "the upstream's", the inner one is removed (counts in between are one lower)."""
    inner = {}          # tag -> inside the entry node's bracket
    out = []
    for ev in evs:
        if ev["ev"] in ("retain", "release") and ev.get("site", "").endswith("Stream._emit@source"):
            inner[ev["tag"]] = ev["ev"] == "retain"
            continue
        if ev["ev"] in ("retain", "release"):
            if inner.get(ev["tag"]):
                ev["count"] -= 1
            if ev.get("site", "").endswith("Stream._emit@Feeder"):
                ev["site"] = ev["site"].replace("@Feeder", "@source")
        out.append(ev)
    evs[:] = out


def run(cfg, schedule):
    sc = Scenario(cfg)
    try:
        for tok in schedule:
            c, arg = tok[0], (int(tok[1:]) if len(tok) > 1 else None)
            if sc.enabled(c, arg, cfg.get("max_elems", 4)):
                sc.op(c, arg)
        sc.drain()
        if cfg.get("feeder") == "plain":
            plain_view(sc.log.ev)
        if cfg.get("falsy"):
            for ev in sc.log.ev:
                if ev["ev"] == "deliver" and "rawx" in ev:
                    ev["rawx"] = sc.ident(ev["rawx"])
                    ev["x"] = aprobe.flat(ev["rawx"])
                if ev["ev"] == "emit_call":
                    ev["x"] = ev["e"]
        return {"cfg": {k: v for k, v in cfg.items()}, "schedule": list(schedule), "ev": sc.log.ev}
    finally:
        sc.close()


def alphabet(cfg):
    k = cfg["kind"]
    al = ["e%d" % (i + 1) for i in range(cfg.get("nsrc", 1))] + ["s"]
    if any(m != "sync" for m in cfg.get("cons", ["future"])):
        al += ["d"]
        if k in ("map_async", "rate_limit", "zip", "union", "direct", "tree", "partition") or len(cfg.get("cons", [])) > 1:
            al += ["D"]
    if k in ("delay", "rate_limit", "timed_window", "timed_window_unique") or (k == "partition" and cfg.get("timeout")):
        al += ["a", "w"]
    if k == "map_async":
        al += ["f", "F"]
    if cfg.get("disconnect"):
        al += ["X"]
    if cfg.get("reconnect"):
        al += ["Y"]
    if cfg.get("fine"):
        al += ["t"]          # single callbacks instead of whole iterations: emissions / completions fall between two callbacks
    if cfg.get("faults") and k == "map_async":
        al += ["g"]
        if cfg.get("reject"):
            al += ["j"]
    elif cfg.get("faults"):
        al += ["x"]
    return al


def enumerate_schedules(cfg, depth, limit, rng):
    """stateless DFS over the enabled ops (disabled ops are pruned), capped at `limit` schedules"""
    al = alphabet(cfg)
    out = []

    def rec(prefix):
        if len(out) >= limit:
            return
        if len(prefix) == depth:
            out.append(list(prefix))
            return
        sc = Scenario(cfg)
        try:
            for tok in prefix:
                sc.op(tok[0], int(tok[1:]) if len(tok) > 1 else None)
            en = [t for t in al if sc.enabled(t[0], int(t[1:]) if len(t) > 1 else None, cfg.get("max_elems", 4))]
        finally:
            sc.close()
        if not en:
            out.append(list(prefix))
            return
        for t in en:
            rec(prefix + [t])
    rec([])
    return out


def random_schedules(cfg, count, maxlen, rng):
    al = alphabet(cfg)
    w = {"e": 3, "s": 4, "d": 2, "D": 1, "a": 2, "w": 1, "f": 2, "F": 1, "x": 1, "g": 2, "j": 2, "t": 6, "X": 1, "Y": 2}
    out = []
    for _ in range(count):
        n = rng.randint(4, maxlen)
        out.append([rng.choices(al, weights=[w[t[0]] for t in al])[0] for _ in range(n)])
    return out


def main():
    ap = argparse.ArgumentParser()
    ap.add_argument("--cfgs", required=True)      # JSON list of node configurations
    ap.add_argument("--tier", default="quick")
    ap.add_argument("--seed", type=int, default=0)
    ap.add_argument("--out", required=True)
    ap.add_argument("--mutant", default=None)
    ap.add_argument("--depth", type=int, default=6)
    ap.add_argument("--limit", type=int, default=400)
    ap.add_argument("--random", type=int, default=200)
    ap.add_argument("--maxlen", type=int, default=14)
    ap.add_argument("--explicit", default=None)     # JSON file: list of [cfg, schedule] to run exactly as given
    a = ap.parse_args()
    if a.mutant:
        import mutants
        mutants.apply(a.mutant)
    rng = random.Random(a.seed)
    if a.cfgs.startswith("@"):
        with open(a.cfgs[1:]) as f:
            cfgs = json.load(f)
    else:
        cfgs = json.loads(a.cfgs)
    runs = []
    if a.explicit:
        with open(a.explicit) as f:
            for cfg, sched in json.load(f):
                runs.append(run(cfg, sched))
    for cfg in cfgs:
        extra = [list(x.split()) for x in cfg.pop("schedules", [])]       # schedules the engine asks for by name
        scheds = extra + enumerate_schedules(cfg, a.depth, a.limit, rng) + random_schedules(cfg, a.random, a.maxlen, rng)
        seen = set()
        for s in scheds:
            key = " ".join(s)
            if key in seen:
                continue
            seen.add(key)
            runs.append(run(cfg, s))
    os.makedirs(a.out, exist_ok=True)
    with open(os.path.join(a.out, "runs.json"), "w") as f:
        json.dump(runs, f, separators=(",", ":"))
    print(json.dumps({"runs": len(runs), "events": sum(len(r["ev"]) for r in runs)}))


if __name__ == "__main__":
    main()
