"""Driver for Observer: composite pipelines with asynchronous nodes placed among synchronous ones.  The synchronous
twin (timing nodes removed) is run first with one tag per element: it yields the expected sink values, their lineage
and the elements still held at the end.  The real pipeline then runs on the virtual loop under random schedules."""
import argparse
import itertools
import json
import logging
import os
import random
import sys
import warnings

sys.path.insert(0, os.path.dirname(os.path.dirname(os.path.abspath(__file__))))
warnings.simplefilter("ignore")
logging.disable(logging.CRITICAL)

import vloop     # noqa: E402
import aprobe    # noqa: E402
from tornado.concurrent import Future   # noqa: E402
from streamz import Stream              # noqa: E402
import streamz                          # noqa: E402

inc = lambda x: x + 1
even = lambda x: x % 2 == 0
pair = lambda x: (x, x + 100)
mod2 = lambda x: x % 2
add = lambda a, x: a + x

# name -> (asynchronous pipeline, synchronous twin); both take the source and return the node the sink is attached to
PIPES = {
    "buffer_partition": (lambda s, T: s.buffer(2).partition(2), lambda s: s.partition(2)),
    "map_buffer_sliding": (lambda s, T: s.map(inc).buffer(1).sliding_window(2), lambda s: s.map(inc).sliding_window(2)),
    "rate_map_buffer": (lambda s, T: s.rate_limit(1).map(inc).buffer(2), lambda s: s.map(inc)),
    "buffer_mapasync": (lambda s, T: s.buffer(1).map_async(T.fn), lambda s: s.map(lambda x: x)),
    # the map_async node is stopped and started again (op Z) while elements are being evaluated / consumed
    "mapasync_restart": (lambda s, T: T.keep(s.map_async(T.fn, parallelism=2)), lambda s: s.map(lambda x: x)),
    "mapasync_partition": (lambda s, T: s.map_async(T.fn, parallelism=2).partition(2), lambda s: s.partition(2)),
    "buffer_unique": (lambda s, T: s.buffer(2).unique(key=mod2), lambda s: s.unique(key=mod2)),
    "zip_buffer": (lambda s, T: streamz.zip(s.buffer(1), s.map(inc)), lambda s: streamz.zip(s, s.map(inc))),
    "buffer_filter_buffer": (lambda s, T: s.buffer(1).filter(even).buffer(1), lambda s: s.filter(even)),
    "delay_flatten": (lambda s, T: s.map(pair).delay(1).flatten(), lambda s: s.map(pair).flatten()),
    "buffer_accumulate": (lambda s, T: s.buffer(2).accumulate(add), lambda s: s.accumulate(add)),
    "partition_buffer_flatten": (lambda s, T: s.partition(2).buffer(1).flatten(), lambda s: s.partition(2).flatten()),
    "slice_buffer": (lambda s, T: s.slice(1, None, 1).buffer(1), lambda s: s.slice(1, None, 1)),
    # one-to-many nodes directly in front of something that answers with a pending awaitable, fed by a producer that does not wait
    # (always behind a node that keeps its own reference: a synchronous chain straight into an asynchronous consumer is
    # known finding F06-emit, exercised by the aemit engine)
    "pair_flatten_buffer": (lambda s, T: s.map(pair).flatten().buffer(1), lambda s: s.map(pair).flatten()),
    "partition_flatten_rate": (lambda s, T: s.partition(2).flatten().rate_limit(1), lambda s: s.partition(2).flatten()),
}
# pipelines whose last node feeds two consumers side by side (the second one a lazily started native coroutine): name -> styles
FANOUT = {
    "partition_two_sinks": ("asyncdef", "asyncdef"),
    "buffer_two_sinks": ("asyncdef", "coro"),
    "mapasync_two_sinks": ("future", "asyncdef"),
}
PIPES.update({
    "partition_two_sinks": (lambda s, T: s.partition(2), lambda s: s.partition(2)),
    "buffer_two_sinks": (lambda s, T: s.buffer(2).map(inc), lambda s: s.map(inc)),
    "mapasync_two_sinks": (lambda s, T: s.map_async(T.fn, parallelism=2), lambda s: s.map(lambda x: x)),
})


class Tasks:
    """map_async functions finish when the driver says so"""

    def __init__(self, log):
        self.log = log
        self.pending = []

    def keep(self, node):
        self.node = node
        return node

    async def fn(self, x):
        f = Future()
        self.pending.append(f)
        await f
        return x


def freeze(x):
    return tuple(freeze(y) for y in x) if isinstance(x, (list, tuple)) else x


def twin_run(name, n):
    """expected values, lineage, held elements"""
    loop = vloop.install()
    try:
        log = aprobe.Log(loop)
        s = Stream(asynchronous=True)
        node = PIPES[name][1](s)
        out = []
        cur = [0]

        class Rec(Stream):
            def update(self, x, who=None, metadata=None):
                # lineage: the elements whose references travel with the value, and the element whose emission produced it
                # (flatten passes the metadata on with the last piece only: the other pieces are that element's data all the same)
                out.append((freeze(x), sorted(set(aprobe.enc_md(metadata)) | {cur[0]}), self.pid))
                return []
        rec = []
        for pid in range(1, len(FANOUT.get(name, (None,))) + 1):
            r_ = Rec(node)      # (downstreams are weak references: keep the node alive)
            r_.pid = pid
            rec.append(r_)
        tags = {e: {"tag": e, "ref": aprobe.RC(e, log)} for e in range(1, n + 1)}
        for e in range(1, n + 1):
            cur[0] = e
            s.emit(e, metadata=[tags[e]])
        held = [e for e in tags if tags[e]["ref"].count > 0]
        del rec
        return out, held
    finally:
        vloop.uninstall(loop)


def run(name, n, schedule, cons):
    expected, held = twin_run(name, n)
    loop = vloop.install()
    try:
        log = aprobe.Log(loop)
        T = Tasks(log)
        s = Stream(asynchronous=True)
        node = PIPES[name][0](s, T)
        styles = FANOUT.get(name) or (cons,)
        probe = [aprobe.Probe(node, log, mode=m, pid=i) for i, m in enumerate(styles, start=1)]     # keep a reference: downstreams are weak
        tags = {e: {"tag": e, "ref": aprobe.RC(e, log)} for e in range(1, n + 1)}
        nxt = [0]
        idle = [0]

        def op(c):
            n0 = len(log.ev)
            if c == "e" and nxt[0] < n:
                nxt[0] += 1
                e = nxt[0]
                loop.do(aprobe.do_emit, log, s, e, e, [tags[e]])
                idle[0] = 0
            elif c == "d" and log.pending:
                loop.do(aprobe.finish_delivery, log, min(log.pending))
                idle[0] = 0
            elif c == "D" and log.pending:
                loop.do(aprobe.finish_delivery, log, max(log.pending))
                idle[0] = 0
            elif c == "x" and log.pending:
                loop.do(aprobe.fail_delivery, log, min(log.pending))
                idle[0] = 0
            elif c == "Z" and getattr(T, "node", None) is not None and getattr(T.node, "work_task", None):
                def restart():
                    T.node.stop()
                    T.node.start()
                loop.do(restart)
                idle[0] = 0
            elif c == "f":
                live = [f for f in T.pending if not f.done()]
                if live:
                    loop.do(live[0].set_result, None)
                    idle[0] = 0
            elif c == "F":
                live = [f for f in T.pending if not f.done()]
                if live:
                    loop.do(live[-1].set_result, None)
                    idle[0] = 0
            elif c == "s" and (loop.live_ready() or loop.due()) and idle[0] < 6:
                loop.step()
                idle[0] = idle[0] + 1 if len(log.ev) == n0 else 0
            elif c == "a" and loop.quiescent() and loop.next_timer() is not None:
                loop.advance()
            if c != "s" and len(log.ev) > n0:
                idle[0] = 0
            log.poll()
        for c in schedule:
            op(c)
        while nxt[0] < n:
            op("e")
        for _ in range(400):
            if (loop.live_ready() or loop.due()) and idle[0] < 6:
                op("s")
            elif log.pending:
                op("d")
            elif any(not f.done() for f in T.pending):
                op("f")
            elif loop.next_timer() is not None and len([e for e in log.ev if e["ev"] == "deliver"]) < len(expected):
                op("a")
            elif idle[0] >= 6 and (loop.live_ready() or loop.due()):
                break      # only a busy-wait is left and nothing the driver could finish
            else:
                break
        # events -> Observer trace
        used = set()
        d2k = {}
        ev = []
        for e in log.ev:
            k = e["ev"]
            if k == "deliver":
                val = freeze(e.get("rawx"))
                kk = next((i for i, (v, _, pid) in enumerate(expected, start=1) if v == val and pid == e.get("probe", 1) and i not in used), 0)
                used.add(kk)
                d2k[e["d"]] = kk
                ev.append({"ev": "Deliver", "k": kk})
            elif k == "cons_done":
                ev.append({"ev": "Consume", "k": d2k.get(e["d"], 0)})
            elif k == "cons_fail":
                ev.append({"ev": "Fail", "k": d2k.get(e["d"], 0)})
            elif k == "release" and e["fired"]:
                ev.append({"ev": "Fire", "e": e["tag"]})
        ev.append({"ev": "End"})
        del probe
        return {"pipe": name, "cons": cons, "schedule": "".join(schedule), "ne": n, "nd": len(expected),
                "lineage": [lin for _, lin, _ in expected], "held": held, "ordered": True, "ev": ev,
                "sink": [pid for _, _, pid in expected],
                "expected": [json.dumps(v) for v, _, _ in expected]}
    finally:
        vloop.uninstall(loop)


def main():
    ap = argparse.ArgumentParser()
    ap.add_argument("--tier", default="quick")
    ap.add_argument("--seed", type=int, default=0)
    ap.add_argument("--out", required=True)
    ap.add_argument("--mutant", default=None)
    a = ap.parse_args()
    if a.mutant:
        import mutants
        mutants.apply(a.mutant)
    rng = random.Random(a.seed)
    runs = []
    per = 40 if a.tier == "quick" else 400
    for name in PIPES:
        for cons in (("future", "sync", "coro") if name not in FANOUT else ("fanout",)):
            for _ in range(per if cons in ("future", "fanout") else per // 4):
                n = rng.randint(3, 5)
                alpha = "eessssdddDaaffF" + ("ZZ" if name == "mapasync_restart" else "")
                if name in FANOUT:
                    alpha = "eeessssssdDDDaffF"      # several consumers: the newest delivery often finishes first
                sched = [rng.choice(alpha) for _ in range(rng.randint(6, 24))]
                if cons != "sync" and rng.random() < 0.3:
                    # one consumer failure somewhere in the second half
                    sched.insert(rng.randint(len(sched) // 2, len(sched)), "x")
                runs.append(run(name, n, sched, cons))
    # several consumers side by side: two batches / elements on their way at once, the consumers finishing them in every order
    for name in FANOUT:
        for fin in itertools.permutations("DDdd"):
            for gap in ("ss", "sssss"):
                sched = list("ee" + gap + "ee" + gap + "ff" + gap) + [c for f in fin for c in (f + gap)]
                runs.append(run(name, 4, sched, "fanout"))
    for i, r in enumerate(runs, start=1):
        r["id"] = i
    os.makedirs(a.out, exist_ok=True)
    with open(os.path.join(a.out, "runs.json"), "w") as f:
        json.dump(runs, f, separators=(",", ":"))
    print(json.dumps({"runs": len(runs), "events": sum(len(r["ev"]) for r in runs)}))


if __name__ == "__main__":
    main()
