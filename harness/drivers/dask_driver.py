"""Driver for DaskFlow: real scatter() ... gather() pipelines on an in-process distributed cluster; the order in which
the cluster finishes tasks is forced with threading.Event gates; the same segment is also run locally and the sink
sequences are compared through the element ids.  Uses the real asyncio loop (distributed needs it): event-gated, no
assertions on wall-clock time."""
import argparse
import asyncio
import itertools
import json
import logging
import os
import random
import sys
import warnings

sys.path.insert(0, os.path.dirname(os.path.dirname(os.path.abspath(__file__))))
warnings.simplefilter("ignore")
logging.disable(logging.CRITICAL)

import dask_funcs as F            # noqa: E402
import aprobe                     # noqa: E402
from distributed import Client    # noqa: E402
from streamz import Stream        # noqa: E402

VALUES = {1: 1, 2: 2, 3: 3, 4: 4}


def local_results(shape, n):
    """what the segment computes when it runs locally (plain Stream, ungated functions)"""
    s = Stream()
    if shape in ("map", "map_buffer"):
        out = s.map(lambda x: x * 10)
    elif shape == "map_map":
        out = s.map(lambda x: x + 1).map(lambda x: x * 10)
    elif shape == "accumulate":
        out = s.accumulate(lambda a, x: a + x, start=0)
    elif shape == "starmap":
        out = s.map(lambda x: (x, x)).starmap(lambda a, b: (a + b) * 5)
    elif shape == "map_kw":
        out = s.map(lambda x: x * 10 + 7 + 3 + 1)
    elif shape == "zip_starmap_kw":
        out = s.map(lambda x: x).zip(s.map(lambda x: x + 1)).starmap(lambda a, b: (a + b) * 5 + 7 + 2)
    elif shape == "zip_same_name":
        out = s.map(lambda x: x * 10).zip(s.map(lambda x: x * 7))
    elif shape == "zip":
        out = s.map(lambda x: x * 10).zip(s.map(lambda x: x + 1))
    elif shape == "sliding":
        out = s.map(lambda x: x * 10).sliding_window(2, return_partial=False)
    elif shape == "partition":
        out = s.map(lambda x: x * 10).partition(1)
    L = out.sink_to_list()
    for e in range(1, n + 1):
        s.emit(VALUES[e])
    return L


def build(shape, src):
    d = src.scatter()
    if shape == "map":
        return d.map(F.gated_x10).gather()
    if shape == "map_buffer":
        return d.map(F.gated_x10).buffer(5).gather()
    if shape == "map_map":
        return d.map(F.inc).map(F.gated_x10_minus).gather()
    if shape == "accumulate":
        return d.accumulate(F.gated_add, start=0).gather()
    if shape == "starmap":
        return d.map(F.dup).starmap(F.gated_pair5).gather()
    if shape == "map_kw":
        return d.map(F.gated_x10_kw, key=7, retries=3, z=1).gather()
    if shape == "zip_starmap_kw":
        return d.map(F.ident).zip(d.map(F.inc)).starmap(F.pair_kw, key=7, priority=2).gather()
    if shape == "zip_same_name":
        return d.map(F.scaled(10, gated=True)).zip(d.map(F.scaled(7))).gather()
    if shape == "zip":
        return d.map(F.gated_x10).zip(d.map(F.inc)).gather()
    if shape == "sliding":
        return d.map(F.gated_x10).sliding_window(2, return_partial=False).gather()
    if shape == "partition":
        return d.map(F.gated_x10).partition(1).gather()
    raise ValueError(shape)


async def scenario(client, cfg, order):
    shape, n, awaitmode, cons = cfg["shape"], cfg["n"], cfg["await"], cfg["cons"]
    F.GATES.clear()
    del F.STARTED[:]
    F.FAIL.clear()
    if cfg.get("fail"):
        F.FAIL.add(cfg["fail"])
    loop = asyncio.get_event_loop()
    log = aprobe.Log(loop)
    src = Stream(asynchronous=True)
    node = build(shape, src)
    probe = aprobe.Probe(node, log, mode=cons)
    tags = {e: {"tag": e, "ref": aprobe.RC(e, log)} for e in range(1, n + 1)}
    ev = []
    state = {"nlog": 0}
    expected = local_results(shape, n)
    per_elem = shape not in ("sliding",)

    def val2elem(x):
        # the element (1-based position in the local result list) a delivered value corresponds to
        x = x if not isinstance(x, list) else tuple(x)
        for i, v in enumerate(expected, start=1):
            if v == x:
                return i
        return -1

    def drain():
        for e in log.ev[state["nlog"]:]:
            k = e["ev"]
            if k == "emit_call":
                ev.append({"ev": "EmitCall", "e": e["e"]})
            elif k == "deliver":
                ev.append({"ev": "Deliver", "e": val2elem(e.get("rawx")), "d": e["d"]})
                state.setdefault("d2e", {})[e["d"]] = ev[-1]["e"]
            elif k == "cons_done" and cons != "sync":
                ev.append({"ev": "ConsumerDone", "e": state["d2e"].get(e["d"], -1)})
            elif k == "retain" and e["site"].endswith("gather.update") and e["tag"] in state.setdefault("gcalled", set()):
                pass      # (a tuple built from two branches of one element carries its tag twice)
            elif k == "retain" and e["site"].endswith("gather.update"):
                state["gcalled"].add(e["tag"])
                # gather.update has been called for this element (it retains first thing): the order of these calls is
                # the order in which results must be passed on
                ev.append({"ev": "GatherCall", "e": e["tag"]})
            elif k == "release" and e["site"].endswith("buffer.cb" if shape == "map_buffer" else "scatter.update"):
                # the release that ends the element's stay in the segment (with a buffer in between, scatter hands
                # its reference over to the buffer as soon as the element is queued)
                ev.append({"ev": "Release", "e": e["tag"], "fired": bool(e["fired"])})
            elif k == "release" and e["fired"]:
                ev.append({"ev": "FiredElsewhere", "e": e["tag"], "site": e["site"]})
            elif k == "emit_done":
                ev.append({"ev": "EmitDone" if not e.get("exc") else "EmitRaised", "e": e["e"], "exc": e.get("exc") or ""})
        state["nlog"] = len(log.ev)

    async def settle(cond=None, rounds=400):
        for _ in range(rounds):
            await asyncio.sleep(0.005)
            log.poll()
            if log.pending and cons != "sync":
                aprobe.finish_delivery(log, min(log.pending))
            drain()
            if cond is not None and cond():
                return True
        return cond is None

    async def producer():
        for e in range(1, n + 1):
            aprobe.do_emit(log, src, e, VALUES[e], [tags[e]])
            if awaitmode:
                fut = log.emits[e]
                for _ in range(4000):         # (bounded: an emit that never completes is reported, not waited for)
                    if fut is None or fut.done():
                        break
                    await asyncio.sleep(0.002)
                else:
                    state["stuck"] = e
                    return
                log.poll()

    ptask = asyncio.ensure_future(producer())
    for e in order:
        # let the task of element e start, then let it finish
        await settle(lambda e=e: e in F.STARTED or ptask.done() and e in F.STARTED, rounds=200)
        drain()
        ev.append({"ev": "TaskFail" if e in F.FAIL else "TaskFinish", "e": e})
        F.gate(e).set()
        await settle(rounds=4)
    await ptask
    if "stuck" in state:
        drain()
        ev.append({"ev": "Stuck", "e": state["stuck"]})
    # the run is over when every emit has completed and every element that did not fail has been let go of by the whole
    # segment (a buffer completes the emits long before that); bounded, so that a stuck pipeline is reported, not waited for
    await settle(lambda: all(e in log.emit_done for e in range(1, n + 1)) and not log.pending
                 and all(tags[e]["ref"].count == 0 for e in tags if VALUES[e] not in F.FAIL), rounds=1500)
    await settle(rounds=3)
    drain()
    ev.append({"ev": "End"})
    got = [e["e"] for e in ev if e["ev"] == "Deliver"]
    return {"cfg": cfg, "order": list(order), "ev": ev, "delivered": got, "expected_len": len(expected)}


# ---------------------------------------------------------------------------------------------------------------
# Segments whose results combine several elements (windows, tuples, two branches): monitored at property level by
# Observer.tla against the local twin (values, lineage of every value, elements still held at the end).
def _x10(x):
    return x * 10


OBS = {
    # name: (number of sources, dask pipeline, local twin, gated(element value) -> bool)
    "sliding": (1, lambda S: S[0].scatter().map(F.gated_x10).sliding_window(2, return_partial=False).gather(),
                lambda S: S[0].map(_x10).sliding_window(2, return_partial=False)),
    # partial windows of three: the first two windows are prefixes of the third and may be on their way through the cluster together
    "sliding3_partial": (1, lambda S: S[0].scatter().map(F.gated_x10).sliding_window(3, return_partial=True).gather(),
                         lambda S: S[0].map(_x10).sliding_window(3, return_partial=True)),
    "partition": (1, lambda S: S[0].scatter().map(F.gated_x10).partition(2).gather(),
                  lambda S: S[0].map(_x10).partition(2)),
    "buffer_sliding": (1, lambda S: S[0].scatter().map(F.gated_x10).buffer(5).sliding_window(2, return_partial=False).gather(),
                       lambda S: S[0].map(_x10).sliding_window(2, return_partial=False)),
    "zip2": (2, lambda S: S[0].scatter().map(F.gated_x10).zip(S[1].scatter()).gather(),
             lambda S: S[0].map(_x10).zip(S[1])),
    "union": (1, lambda S: _union(S[0].scatter()), lambda S: S[0].map(_x10).union(S[0].map(F.inc))),
}


def _union(d):
    return d.map(F.gated_x10).union(d.map(F.inc)).gather()


def _freeze(x):
    return tuple(_freeze(y) for y in x) if isinstance(x, (list, tuple)) else x


def _plan(shape, n):
    """emission plan: element id -> (source index, value); elements of the first source are the gated ones"""
    nsrc = OBS[shape][0]
    plan = {}
    for k in range(1, n * nsrc + 1):
        si = (k - 1) % nsrc
        plan[k] = (si, (k - 1) // nsrc + 1 + 100 * si)
    return plan


def obs_twin(shape, n):
    plan = _plan(shape, n)
    loop = asyncio.get_event_loop()
    log = aprobe.Log(loop)
    # (asynchronous=True: nodes that need a loop bind to this one instead of blocking on the background loop; nothing in
    # the twin ever waits, so every emit has run to completion when it returns)
    S = [Stream(asynchronous=True) for _ in range(OBS[shape][0])]
    node = OBS[shape][2](S)
    out = []

    class Rec(Stream):
        def update(self, x, who=None, metadata=None):
            out.append((_freeze(x), sorted(set(aprobe.enc_md(metadata)))))
            return []
    rec = Rec(node)
    tags = {e: {"tag": e, "ref": aprobe.RC(e, log)} for e in plan}
    for e, (si, v) in plan.items():
        S[si].emit(v, metadata=[tags[e]])
    held = [e for e in tags if tags[e]["ref"].count > 0]
    del rec
    return out, held


async def obs_scenario(client, cfg, order):
    shape, n, awaitmode, cons = cfg["shape"], cfg["n"], cfg["await"], cfg["cons"]
    F.GATES.clear()
    del F.STARTED[:]
    F.FAIL.clear()
    expected, held = obs_twin(shape, n)
    plan = _plan(shape, n)
    loop = asyncio.get_event_loop()
    log = aprobe.Log(loop)
    S = [Stream(asynchronous=True) for _ in range(OBS[shape][0])]
    node = OBS[shape][1](S)
    probe = aprobe.Probe(node, log, mode=cons)
    tags = {e: {"tag": e, "ref": aprobe.RC(e, log)} for e in plan}
    ev = []
    state = {"nlog": 0, "d2k": {}}
    used = set()

    def drain():
        for e in log.ev[state["nlog"]:]:
            k = e["ev"]
            if k == "deliver":
                val = _freeze(e.get("rawx"))
                kk = next((i for i, (v, _) in enumerate(expected, start=1) if v == val and i not in used), 0)
                used.add(kk)
                state["d2k"][e["d"]] = kk
                ev.append({"ev": "Deliver", "k": kk})
                if cons == "sync":
                    ev.append({"ev": "Consume", "k": kk})
            elif k == "cons_done" and cons != "sync":
                ev.append({"ev": "Consume", "k": state["d2k"].get(e["d"], 0)})
            elif k == "release" and e["fired"]:
                ev.append({"ev": "Fire", "e": e["tag"]})
        state["nlog"] = len(log.ev)

    async def settle(cond=None, rounds=400):
        for _ in range(rounds):
            await asyncio.sleep(0.005)
            log.poll()
            if log.pending and cons != "sync":
                aprobe.finish_delivery(log, min(log.pending))
            drain()
            if cond is not None and cond():
                return True
        return cond is None

    async def producer():
        for e, (si, v) in plan.items():
            aprobe.do_emit(log, S[si], e, v, [tags[e]])
            if awaitmode:
                fut = log.emits[e]
                while fut is not None and not fut.done():
                    await asyncio.sleep(0.002)
                log.poll()

    ptask = asyncio.ensure_future(producer())
    for v in order:
        await settle(lambda v=v: v in F.STARTED, rounds=200)
        F.gate(v).set()
        await settle(rounds=4)
    await ptask
    await settle(lambda: all(e in log.emit_done for e in plan) and not log.pending
                 and all(tags[e]["ref"].count == 0 for e in tags if e not in held), rounds=1500)
    await settle(rounds=3)
    drain()
    ev.append({"ev": "End"})
    del probe
    return {"cfg": cfg, "order": list(order), "ne": len(plan), "nd": len(expected), "lineage": [lin for _, lin in expected],
            "held": held, "ordered": bool(awaitmode), "ev": ev, "expected": [json.dumps(v) for v, _ in expected]}


async def amain(a):
    rng = random.Random(a.seed)
    client = await Client(processes=False, asynchronous=True, dashboard_address=None, n_workers=1, threads_per_worker=16)
    runs = []
    shapes = ["map", "map_buffer", "map_map", "accumulate", "starmap", "zip", "map_kw", "zip_starmap_kw", "zip_same_name"]
    n = 3
    try:
        for shape in shapes:
            for awaitmode in (True, False):
                for cons in ("future", "sync"):
                    perms = [tuple(range(1, n + 1))] if awaitmode else list(itertools.permutations(range(1, n + 1)))
                    if a.tier == "quick" and not awaitmode:
                        perms = [perms[0], perms[-1], rng.choice(perms[1:-1])]
                    for order in perms:
                        cfg = {"shape": shape, "n": n, "await": awaitmode, "cons": cons}
                        runs.append(await asyncio.wait_for(scenario(client, cfg, order), 60))
        # a task raises on the cluster: the emit of that element raises, the others are delivered as if it had not been sent
        for shape in ("map", "map_map"):
            for awaitmode in (True, False):
                for fail in (1, 2, 3):
                    perms = [tuple(range(1, n + 1))] if awaitmode else list(itertools.permutations(range(1, n + 1)))
                    if a.tier == "quick" and not awaitmode:
                        perms = [perms[0], perms[-1], rng.choice(perms[1:-1])]
                    for order in perms:
                        cfg = {"shape": shape, "n": n, "await": awaitmode, "cons": "future", "fail": fail}
                        runs.append(await asyncio.wait_for(scenario(client, cfg, order), 90))
        obs = []
        for shape in OBS:
            # (partition(2): four elements, so that a second partition forms while the first one waits for the cluster)
            nn = 4 if shape in ("partition", "sliding3_partial") else n
            for awaitmode in (True, False):
                for cons in ("future", "sync"):
                    perms = [tuple(range(1, nn + 1))] if awaitmode else list(itertools.permutations(range(1, nn + 1)))
                    if a.tier == "quick" and not awaitmode:
                        perms = [perms[0], perms[-1], rng.choice(perms[1:-1])]
                    elif not awaitmode and len(perms) > 8:
                        perms = [perms[0], perms[-1]] + rng.sample(perms[1:-1], 6)
                    for order in perms:
                        cfg = {"shape": shape, "n": nn, "await": awaitmode, "cons": cons}
                        obs.append(await asyncio.wait_for(obs_scenario(client, cfg, order), 60))
    finally:
        await client.close()
    for i, r in enumerate(runs, start=1):
        r["id"] = i
    for i, r in enumerate(obs, start=1):
        r["id"] = i
    os.makedirs(a.out, exist_ok=True)
    with open(os.path.join(a.out, "obs.json"), "w") as f:
        json.dump(obs, f, separators=(",", ":"))
    with open(os.path.join(a.out, "runs.json"), "w") as f:
        json.dump(runs, f, separators=(",", ":"))
    print(json.dumps({"runs": len(runs), "events": sum(len(r["ev"]) for r in runs)}))


def main():
    ap = argparse.ArgumentParser()
    ap.add_argument("--tier", default="quick")
    ap.add_argument("--seed", type=int, default=0)
    ap.add_argument("--out", required=True)
    ap.add_argument("--mutant", default=None)
    a = ap.parse_args()
    if a.mutant:
        import mutants
        mutants.apply(a.mutant)
    asyncio.run(amain(a))
    os._exit(0)


if __name__ == "__main__":
    main()
