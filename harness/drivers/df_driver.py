"""Driver for DFAgg: feeds batch sequences to real streaming-dataframe pipelines (real pandas), records what each
aggregation emits after every batch (as exact rationals), what pandas computes on the concatenation, and -- for the
restart scenarios of C12 -- what a second pipeline seeded with the exposed state emits."""
import argparse
import itertools
import json
import logging
import math
import os
import random
import sys
import warnings
from fractions import Fraction

sys.path.insert(0, os.path.dirname(os.path.dirname(os.path.abspath(__file__))))
warnings.simplefilter("ignore")
logging.disable(logging.CRITICAL)

import numpy as np          # noqa: E402
import pandas as pd         # noqa: E402
from streamz import Stream  # noqa: E402
from streamz.dataframe import DataFrame   # noqa: E402

BASE = pd.Timestamp("2000-01-01")
NAN = 99
KEYS = {1: "a", 2: "b", 3: "c"}


def wv(v):
    """the second value column: derived from v, missing in different rows than v"""
    return {0: NAN, 1: 0, 2: 2, NAN: 1}.get(v, 1)


def mk(rows, col="v"):
    # epoch seconds -> a second-resolution DatetimeIndex (what pd.to_datetime(..., unit="s") gives in pandas >= 2)
    idx = pd.DatetimeIndex(pd.to_datetime([946684800 + t for _, _, t in rows], unit="s"))
    df = pd.DataFrame({"v": [float("nan") if v == NAN else float(v) for v, _, _ in rows],
                       "w": [float("nan") if wv(v) == NAN else float(wv(v)) for v, _, _ in rows],
                       "k": pd.Series([KEYS[k] for _, k, _ in rows], dtype=object, index=idx)}, index=idx)
    return df


def rat(x):
    """number -> [num, den]; NaN/inf -> [0, 0]"""
    try:
        f = float(x)
    except Exception:
        return [0, 0]
    if math.isnan(f) or math.isinf(f):
        return [0, 0]
    fr = Fraction(f).limit_denominator(100000)
    return [fr.numerator, fr.denominator]


def keyed(s):
    """Series indexed by key / value -> sorted [[key, [n, d]], ...] with keys as ints"""
    inv = {v: k for k, v in KEYS.items()}
    out = []
    for k, x in s.items():
        kk = inv.get(k, None)
        if kk is None:
            kk = int(k)
        out.append([kk, rat(x)])
    return sorted(out)


def conv(family, agg, x):
    """emitted object -> JSON result in the shape DFAggTrace expects"""
    if family in ("rolling", "cumulative"):
        return [rat(v) for v in (x.tolist() if hasattr(x, "tolist") else list(x))]
    if family in ("groupby", "wgroupby") or agg == "value_counts":
        if not hasattr(x, "items"):
            return []
        return keyed(x)
    if family == "ewm":
        if hasattr(x, "__len__"):
            return rat(x.iloc[-1]) if len(x) else []
        return rat(x)
    return rat(x)


# ---- what pandas computes on a whole table -------------------------------------------------------------------

def pandas_whole(family, agg, winkind, w, df, col):
    s = df[col]
    if family in ("reduce", "window", "groupby", "wgroupby"):
        if family in ("window", "wgroupby"):
            if winkind == "rows":
                df = df.iloc[-w:] if w else df.iloc[:0]
            elif winkind == "time" and len(df):
                df = df[df.index > df.index.max() - pd.Timedelta(seconds=w)]
            s = df[col]
        if family in ("groupby", "wgroupby"):
            g = df.groupby("k")[col]
            return keyed(getattr(g, agg)())
        if agg == "value_counts":
            return keyed(s.value_counts())
        if agg == "size":
            return rat(len(s))
        return rat(getattr(s, agg)())
    if family == "rolling":
        r = s.rolling(w if winkind == "rows" else "%ds" % w)
        return [rat(v) for v in getattr(r, agg)().tolist()]
    if family == "cumulative":
        return [rat(v) for v in getattr(s, agg)().tolist()]
    if family == "ewm":
        return [rat(v) for v in s.ewm(com=w).mean().tolist()]
    raise ValueError(family)


# ---- real pipelines ------------------------------------------------------------------------------------------

POISON = 7      # a value on which the user's aggregation raises (cfg["failagg"])


class Injected(Exception):
    pass


def failing_sum():
    """a user-defined aggregation: Sum that refuses batches containing POISON"""
    from streamz.dataframe.aggregations import Sum

    class CheckedSum(Sum):
        def on_new(self, acc, new):
            if (new == POISON).any().any() if hasattr((new == POISON).any(), "any") else (new == POISON).any():
                raise Injected("poisoned batch")
            return Sum.on_new(self, acc, new)
    return CheckedSum()


def build(cfg, source, start=None, with_state=False):
    """returns the streaming result object for cfg on a fresh DataFrame over `source`"""
    ex = mk([])
    sdf = DataFrame(source, example=ex)
    fam, agg, wk, w, col = cfg["family"], cfg["agg"], cfg["winkind"], cfg["w"], cfg["col"]
    pre = cfg.get("pre", "none")
    mid = None
    root = sdf
    if pre == "pos":
        sdf = sdf[sdf[col] > 0]
        mid = sdf
    elif pre == "setinc":
        _ = getattr(sdf, col).sum()          # the column has been used before ...
        sdf[col] = sdf[col] + 1              # ... it is overwritten in place
        mid = sdf
    elif pre == "assign":
        sdf = sdf.assign(**{col: sdf[col] + 1 - 1})
        mid = sdf
    frame = cfg.get("frame", False)
    sel = (lambda o: o[["v", "w"]]) if frame else (lambda o: getattr(o, col) if cfg.get("getattr") else o[col])
    kw = {}
    if fam == "reduce":
        x = sel(sdf)
        if agg == "size":
            return x.size, mid
        if agg == "value_counts":
            return x.value_counts(), mid
        if start is not None:
            kw["start"] = start
        return getattr(x, agg)(**kw), mid
    if fam == "groupby":
        # grouper "rootstream": the key column of the *unfiltered* frame groups the filtered / projected one (pandas aligns them by
        # index); the frame's branch hangs on the source before the grouper's branch does
        g = sdf.groupby(root.k if cfg.get("grouper") == "rootstream" else sdf.k if cfg.get("grouper") == "stream" else "k")
        x = sel(g)
        if agg in ("sum", "count", "mean") and start is not None:
            kw["start"] = start
        if agg == "mean" and with_state:
            kw["with_state"] = True
        return getattr(x, agg)(**kw), mid
    wkw = {}
    if with_state:
        wkw["with_state"] = True
    if start is not None:
        wkw["start"] = start
    if fam in ("window", "wgroupby"):
        if wk == "rows":
            win = sdf.window(n=w, **wkw)
        elif wk == "time":
            win = sdf.window(value="%ds" % w, **wkw)
        else:
            win = sdf.expanding(**wkw)
        if fam == "wgroupby":
            x = sel(win.groupby(sdf.k if cfg.get("grouper") == "stream" else "k"))
        else:
            x = sel(win)
        if agg == "size":
            r = x.size
            return (r() if callable(r) else r), mid
        if cfg.get("failagg"):
            return x.aggregate(failing_sum()), mid
        if cfg.get("via_apply"):
            # window.apply(func): func is handed the *whole* window (the Full aggregation) after every batch
            return x.apply({"size": len, "sum": lambda s: s.sum(), "count": lambda s: s.count()}[agg]), mid
        return getattr(x, agg)(), mid
    if fam == "rolling":
        if start is None:
            wkw.pop("start", None)
        x = sel(sdf.rolling(w if wk == "rows" else "%ds" % w, **wkw))
        return getattr(x, agg)(), mid
    if fam == "cumulative":
        return getattr(sel(sdf), agg)(), mid
    if fam == "ewm":
        return sel(sdf.ewm(com=w, **wkw)).mean(), mid
    raise ValueError(fam)


def pick(cfg, x):
    """the monitored column of an emitted object (frame variant emits both columns)"""
    if cfg.get("frame"):
        try:
            if isinstance(x, pd.DataFrame):
                return x[cfg["col"]]
            if isinstance(x, pd.Series):
                return x[cfg["col"]]
        except Exception:
            return x
    return x


def run(cfg, batches, cut=None, failsink=None):
    fam, agg, wk, w, col = cfg["family"], cfg["agg"], cfg["winkind"], cfg["w"], cfg["col"]
    use_ws = cut is not None and (fam in ("window", "wgroupby", "rolling", "ewm") or (fam == "groupby" and agg == "mean"))
    srcA = Stream()
    try:
        resA, mid = build(cfg, srcA, with_state=use_ws)
    except Exception as e:      # the pipeline cannot even be constructed over an empty example
        return {"cfg": cfg, "cut": cut or 0, "steps": [{"raw": [], "error": "construction: " + repr(e)[:160]}]}
    LA = resA.stream.sink_to_list()
    armed = [False]
    if failsink:
        # a second consumer, attached after the one that records the results (and the exposed state): it raises for one batch;
        # the emitter catches the exception and carries on.  The accumulator has taken that batch in, and the state it exposed
        # for it is the state it continues from.
        def raiser(x):
            if armed[0]:
                armed[0] = False
                raise Injected("downstream consumer failed")
        resA.stream.sink(raiser)
    LM = mid.stream.sink_to_list() if mid is not None else None
    nodeA = resA.stream
    srcB = LB = None
    steps = []
    seen = []
    err = None
    for i, b in enumerate(batches, start=1):
        raw = mk(b)
        # the rows as the monitored column sees them (column w is derived from v)
        st = {"raw": [[wv(v) if col == "w" else v, k, t] for v, k, t in b]}
        try:
            if cut is not None and i == cut + 1:
                # a fresh pipeline seeded with the state exposed after batch `cut`
                if use_ws:
                    state = LA[-1][0]
                elif fam in ("reduce", "groupby"):
                    state = nodeA.state
                srcB = Stream()
                resB, _ = build(cfg, srcB, start=state, with_state=use_ws)
                LB = resB.stream.sink_to_list()
            nA = len(LA)
            armed[0] = bool(failsink and i == failsink)
            try:
                srcA.emit(raw)
            except Injected:
                if not (failsink and i == failsink):
                    raise
                st["sink_failed"] = True
            if srcB is not None:
                nB = len(LB)
                srcB.emit(raw)
        except Injected:
            # the user's aggregation refused this batch: the exception reached the emitter; nothing was emitted, and every later
            # result must be what it would be had this batch never been offered (C16)
            st["fails"] = True
            st["raised"] = True
            st["emitted_on_failure"] = len(LA) > nA
            steps.append(st)
            continue
        except Exception as e:
            err = repr(e)[:200]
            st["error"] = err
            steps.append(st)
            break
        if cfg.get("failagg") and any(v == POISON for v, _, _ in b):
            st["fails"] = True
            st["raised"] = False        # the poisoned batch went through
            steps.append(st)
            continue
        # rows that reached the aggregation (after the optional filter / assignment)
        eff = raw
        if LM is not None:
            eff = LM[-1]
            st["mid"] = [[NAN if math.isnan(v) else int(v), {v2: k2 for k2, v2 in KEYS.items()}[k], int((ts - BASE) / pd.Timedelta(seconds=1))]
                         for v, k, ts in zip(eff[col].tolist(), eff["k"].tolist(), eff.index)]
        seen.append(eff)
        outA = LA[-1] if len(LA) > nA else None
        if use_ws and outA is not None:
            outA = outA[1]
        st["emitted"] = outA is not None
        st["out"] = conv(fam, agg, pick(cfg, outA)) if outA is not None else []
        whole = pd.concat(seen) if seen else raw
        st["pandas"] = pandas_whole(fam, agg, wk, w, whole, col) if len(whole) else []
        if srcB is not None:
            outB = LB[-1] if len(LB) > nB else None
            if use_ws and outB is not None:
                outB = outB[1]
            st["outB"] = conv(fam, agg, pick(cfg, outB)) if outB is not None else []
        steps.append(st)
    return {"cfg": cfg, "cut": cut or 0, "steps": steps}


# ---- scenario catalogue --------------------------------------------------------------------------------------

def configs(tier):
    C = []
    def add(family, agg, winkind="rows", w=0, **kw):
        d = dict(family=family, agg=agg, winkind=winkind, w=w, col="v")
        d.update(kw)
        C.append(d)
    for agg in ("sum", "count", "size", "mean", "value_counts"):
        add("reduce", agg)
    add("reduce", "sum", frame=True); add("reduce", "mean", frame=True, col="w"); add("reduce", "count", frame=True)
    add("reduce", "sum", pre="pos"); add("reduce", "mean", pre="pos"); add("reduce", "count", pre="assign")
    add("reduce", "sum", getattr=True)
    add("reduce", "sum", pre="setinc", getattr=True); add("reduce", "count", pre="setinc"); add("groupby", "sum", pre="setinc", getattr=True)
    add("reduce", "mean", pre="setinc", getattr=True)
    for agg in ("sum", "count", "size", "mean", "var"):
        add("groupby", agg)
        add("groupby", agg, grouper="stream")
    add("groupby", "sum", frame=True, col="w"); add("groupby", "mean", pre="pos")
    for agg in ("sum", "count", "mean", "size"):
        add("groupby", agg, pre="pos", grouper="rootstream")
    for n in ((1, 2, 3) if tier != "quick" else (1, 2)):
        for agg in ("sum", "count", "size", "mean", "var", "value_counts"):
            add("window", agg, "rows", n)
        for agg in ("sum", "count", "mean", "size"):
            add("wgroupby", agg, "rows", n)
        add("wgroupby", "sum", "rows", n, grouper="stream")
    for t in ((1, 2, 3) if tier != "quick" else (2,)):
        for agg in ("sum", "count", "mean", "var"):
            add("window", agg, "time", t)
        add("wgroupby", "sum", "time", t); add("wgroupby", "mean", "time", t)
    add("window", "sum", "rows", 2, frame=True, col="w"); add("window", "mean", "time", 2, pre="pos")
    add("window", "mean", "rows", 2, frame=True, col="w"); add("window", "mean", "rows", 1, frame=True, col="v")
    add("window", "mean", "time", 2, frame=True, col="w"); add("window", "count", "rows", 2, frame=True, col="w")
    for agg in ("sum", "mean", "var", "count"):
        add("window", agg, "expanding", 0)
    for n in ((1, 2, 3) if tier != "quick" else (2, 3)):
        for agg in ("sum", "count", "mean", "min", "max"):
            add("rolling", agg, "rows", n)
    for t in (2,) if tier == "quick" else (1, 2, 3):
        for agg in ("sum", "max", "mean"):
            add("rolling", agg, "time", t)
    add("rolling", "sum", "rows", 2, frame=True, col="w")
    for agg in ("cumsum", "cumprod", "cummin", "cummax"):
        add("cumulative", agg)
    add("cumulative", "cumsum", frame=True, col="w")
    # window.apply(func) / full(): the function sees exactly the rows of the window
    for agg in ("size", "sum", "count"):
        add("window", agg, "rows", 2, via_apply=True); add("window", agg, "rows", 3, via_apply=True)
        add("window", agg, "time", 2, via_apply=True)
    # a user-defined aggregation that raises on some batches (C16 on the dataframe accumulators)
    add("window", "sum", "rows", 2, failagg=True); add("window", "sum", "rows", 3, failagg=True)
    add("window", "sum", "time", 2, failagg=True); add("window", "sum", "expanding", 0, failagg=True)
    for com in (0, 1, 3):
        add("ewm", "mean", "expanding", com)
    add("ewm", "mean", "expanding", 1, frame=True, col="v")      # (column w has missing values: outside the ewm model)
    return C


def batch_sequences(cfg, rng, count, maxrows=3, maxbatches=4):
    """random tables split into consecutive batches, empty batches included"""
    fam = cfg["family"]
    # ewm: missing values are outside the model (pandas re-weights by absolute position; streamz' recurrence does not)
    vdom = [0, 1, 2] if fam == "ewm" else [0, 1, 2, NAN]
    kdom = [1, 2, 3] if fam in ("groupby", "wgroupby") else [1]
    tdom = [0, 1, 2] if cfg["winkind"] == "time" else [1]
    out = []
    for _ in range(count):
        nb = rng.randint(1, maxbatches)
        t = 0
        seq = []
        for _ in range(nb):
            n = rng.choice([0, 0, 1, 1, 2, 2, 3][:2 + 2 * maxrows - 1])
            if fam == "ewm" and sum(len(x) for x in seq) + n > 5:
                n = 0       # exact rationals of the weighted mean must stay inside TLC's 32-bit integers
            b = []
            for _ in range(n):
                t += rng.choice(tdom)
                b.append([rng.choice(vdom), rng.choice(kdom), t])
            seq.append(b)
        out.append(seq)
    # always: empty first batch, NaN-ending batch, all-NaN batch, window-sized batches
    nan = 0 if fam == "ewm" else NAN
    out.append([[], [[1, 1, 1], [nan, 2, 2]], [[2, 1, 3]]])
    out.append([[[nan, 1, 1]], [[2, 2, 2], [0, 1, 3]], []])
    out.append([[[1, 1, 1], [2, 2, 1], [0, 1, 2]], [], [[2, 2, 4], [1, 3 if 3 in kdom else 1, 4]]])
    if cfg.get("grouper") == "rootstream":
        # a grouper aligned by index needs unique labels (pandas itself refuses duplicates)
        out = [s for s in out if len({r[2] for b in s for r in b}) == sum(len(b) for b in s)]
    return out


def main():
    ap = argparse.ArgumentParser()
    ap.add_argument("--tier", default="quick")
    ap.add_argument("--seed", type=int, default=0)
    ap.add_argument("--out", required=True)
    ap.add_argument("--mutant", default=None)
    ap.add_argument("--only", default=None)
    a = ap.parse_args()
    if a.mutant:
        import mutants
        mutants.apply(a.mutant)
    rng = random.Random(a.seed)
    runs = []
    per = 25 if a.tier == "quick" else 250
    for cfg in configs(a.tier):
        if a.only and a.only not in json.dumps(cfg):
            continue
        if cfg.get("failagg"):
            for seq in batch_sequences(cfg, rng, per, maxbatches=4):
                # one or two poisoned batches somewhere after the first
                seq = [b for b in seq]
                for _ in range(rng.randint(1, 2)):
                    t = max([r[2] for b in seq for r in b] + [0])
                    pos = rng.randint(1, len(seq))
                    tb = max([r[2] for b in seq[:pos] for r in b] + [0])
                    seq.insert(pos, [[POISON, 1, tb], [1, 1, tb]][:rng.randint(1, 2)])
                runs.append(run(cfg, seq))
            continue
        for seq in batch_sequences(cfg, rng, per):
            runs.append(run(cfg, seq))
        # restart scenarios (C12) for the families that expose / accept a state
        restartable = cfg["family"] in ("window", "wgroupby", "rolling", "ewm") or \
            (cfg["family"] == "reduce" and cfg["agg"] in ("sum", "count", "mean") and not cfg.get("frame")) or \
            (cfg["family"] == "groupby" and cfg["agg"] in ("sum", "count", "mean"))
        if restartable and not cfg.get("via_apply"):
            for seq in batch_sequences(cfg, rng, max(per // 3, 6)):
                if len(seq) >= 2:
                    cut = rng.randint(1, len(seq) - 1)
                    # (every third restart scenario: a consumer behind the recording one fails for the batch at the cut or before)
                    runs.append(run(cfg, seq, cut=cut, failsink=rng.randint(1, cut) if rng.random() < 0.35 and not cfg.get("failagg") and not cfg.get("pre") else None))
    for i, r in enumerate(runs, start=1):
        r["id"] = i
    os.makedirs(a.out, exist_ok=True)
    with open(os.path.join(a.out, "runs.json"), "w") as f:
        json.dump(runs, f, separators=(",", ":"))
    print(json.dumps({"runs": len(runs), "steps": sum(len(r["steps"]) for r in runs)}))


if __name__ == "__main__":
    main()
