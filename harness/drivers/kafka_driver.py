"""Driver for KafkaBatched: the real FromKafkaBatched source + get_message_batch against the in-memory
confluent_kafka fake on the virtual-time loop: production histories, partition additions, consumer completion
orders, and a crash (everything but the broker dropped) followed by a restart with the same group.

Schedule alphabet: P<p> produce to partition p   N add a partition   S start / restart   X crash
                   s one loop iteration   a advance clock to next timer (one poll)   d / D finish oldest / newest consumer
"""
import argparse
import json
import logging
import os
import random
import sys
import warnings

sys.path.insert(0, os.path.dirname(os.path.dirname(os.path.abspath(__file__))))
warnings.simplefilter("ignore")
logging.disable(logging.CRITICAL)

import fake_ck                      # noqa: E402
sys.modules["confluent_kafka"] = fake_ck
import vloop                        # noqa: E402
import aprobe                       # noqa: E402
from tornado.ioloop import IOLoop   # noqa: E402
from streamz import Stream          # noqa: E402
from streamz.core import Stream as _S   # noqa: E402

TOPIC = "t"


class HoldProbe(aprobe.Probe):
    """a consumer that follows the reference protocol: it retains what it is given until the driver lets it finish"""

    def update(self, x, who=None, metadata=None):
        log = self.log
        log.nd += 1
        d = log.nd
        if getattr(log, "fail_next", False):
            # the consumer raises while the batch is pushed through the pipeline (a poison message, an outage of the sink)
            log.fail_next = False
            log.add("deliver_fail", d=d, x=[v.decode() if isinstance(v, bytes) else str(v) for v in x])
            raise aprobe.ConsumerError("consumer refused batch %d" % d)
        self._retain_refs(metadata or [])
        log.add("deliver", d=d, x=[v.decode() if isinstance(v, bytes) else str(v) for v in x])
        if self.mode == "sync":
            self._release_refs(metadata or [])
            log.add("cons_done", d=d)
            return []
        log.pending[d] = (metadata or [], self)
        return []


class Tap(_S):
    """records the batch the source emits and passes it on unchanged (with whatever awaitables come back)"""

    def __init__(self, upstream, log):
        self.log = log
        _S.__init__(self, upstream)

    def update(self, x, who=None, metadata=None):
        self.log.nd += 1
        self.log.add("deliver", d=self.log.nd, x=[v.decode() if isinstance(v, bytes) else str(v) for v in x])
        return self._emit(x, metadata=metadata)


class MsgProbe(HoldProbe):
    """the consumer behind source.flatten(): one delivery per message"""

    def update(self, x, who=None, metadata=None):
        log = self.log
        log.nd += 1
        d = log.nd
        self._retain_refs(metadata or [])
        log.add("msg_deliver", d=d, x=x.decode() if isinstance(x, bytes) else str(x))
        if self.mode == "sync":
            self._release_refs(metadata or [])
            log.add("msg_done", d=d)
            return []
        log.pending[d] = (metadata or [], self)
        return []


def finish(log, d):
    md, probe = log.pending.pop(d)
    log.add("msg_done" if isinstance(probe, MsgProbe) else "cons_done", d=d)
    probe._release_refs(md)


class Scenario:
    def __init__(self, cfg):
        self.cfg = cfg
        fake_ck.BROKER.reset()
        fake_ck.BROKER.create(TOPIC, cfg["np0"])
        self.loop = None
        self.log = None
        self.events = []
        self.alive = False
        self.src = None
        self.ncalls = 0

    def _new_world(self):
        self.loop = vloop.install()
        self.log = aprobe.Log(self.loop)

    def ev(self, kind, **kw):
        kw["ev"] = kind
        self.events.append(kw)

    def _drain_log(self):
        """move what the probes and the fake recorded since last time into the event list"""
        for e in self.log.ev[self._nlog:]:
            if e["ev"] == "deliver":
                vals = e["x"]
                ps = [int(v.split(":")[0]) for v in vals]
                offs = [int(v.split(":")[1]) for v in vals]
                ok = bool(vals) and len(set(ps)) == 1 and offs == list(range(offs[0], offs[0] + len(offs)))
                self._d[e["d"]] = (ps[0] if vals else -1, offs[0] if vals else -1, offs[-1] if vals else -1)
                if self.cfg.get("shape") == "flatten":
                    self.open_batches.append(self._d[e["d"]])
                self.ev("EmitBatch", p=self._d[e["d"]][0], lo=self._d[e["d"]][1], hi=self._d[e["d"]][2], exact=ok)
            elif e["ev"] == "deliver_fail":
                vals = e["x"]
                ps = [int(v.split(":")[0]) for v in vals]
                offs = [int(v.split(":")[1]) for v in vals]
                self.failed_parts.add(ps[0] if vals else -1)
                self.ev("FailBatch", p=ps[0] if vals else -1, lo=offs[0] if vals else -1, hi=offs[-1] if vals else -1)
            elif e["ev"] == "msg_deliver":
                p_, off = [int(v) for v in e["x"].split(":")]
                self._d[e["d"]] = (p_, off, off)
                self.ev("MsgDeliver", p=p_, off=off)
            elif e["ev"] == "msg_done":
                # a batch is processed when the last of its messages has been let go of by the consumer
                p_, off, _ = self._d[e["d"]]
                self.msgs_done.add((p_, off))
                for (bp, lo, hi) in list(self.open_batches):
                    if all((bp, o) in self.msgs_done for o in range(lo, hi + 1)):
                        self.open_batches.remove((bp, lo, hi))
                        self.ev("Process", p=bp, lo=lo, hi=hi)
            elif e["ev"] == "cons_done":
                p, lo, hi = self._d[e["d"]]
                self.ev("Process", p=p, lo=lo, hi=hi)
        self._nlog = len(self.log.ev)
        for c in fake_ck.BROKER.calls[self.ncalls:]:
            if c[0] == "commit":
                self.ev("Commit", p=c[3], offset=c[4])
            elif c[0] == "committed" and not self.prologue:
                # the incarnation really begins when poll_kafka reads the committed offsets
                self.prologue = True
                self.events.insert(self._mark, {"ev": "Start"})
        self.ncalls = len(fake_ck.BROKER.calls)

    def op(self, c, arg=None):
        cfg = self.cfg
        if c == "P":
            if arg < len(fake_ck.BROKER.logs[TOPIC]) and len(fake_ck.BROKER.logs[TOPIC][arg]) < cfg["maxmsgs"]:
                off = len(fake_ck.BROKER.logs[TOPIC][arg])
                fake_ck.BROKER.produce(TOPIC, arg, ("%d:%d" % (arg, off)).encode())
                self.ev("Produce", p=arg)
            return
        if c == "N":
            if len(fake_ck.BROKER.logs[TOPIC]) < cfg["maxparts"]:
                fake_ck.BROKER.add_partition(TOPIC)
                self.ev("AddPartition")
            return
        if c == "S":
            if self.alive:
                return
            self._new_world()
            self._nlog = 0
            self._d = {}
            self.failed_parts = set()
            self.msgs_done = set()
            self.open_batches = []
            params = {"bootstrap.servers": "x", "group.id": "g1"}
            if not cfg["latest"]:
                params["auto.offset.reset"] = "earliest"
            node = Stream.from_kafka_batched(TOPIC, params, poll_interval=1, npartitions=None,
                                             refresh_partitions=cfg["refresh"], max_batch_size=cfg["maxbatch"],
                                             asynchronous=True, loop=IOLoop.current())
            self.src = node.upstreams[0]
            if cfg.get("shape") == "flatten":
                # source -> flatten -> consumer of single messages: the batch's reference travels with its *last* message
                self.tap = Tap(node, self.log)
                self.probe = MsgProbe(self.tap.flatten(), self.log, mode=cfg.get("cons", "hold"))
            else:
                self.probe = HoldProbe(node, self.log, mode=cfg.get("cons", "hold"))
            self.loop.do(node.start)
            self.alive = True
            self.prologue = False
            # poll_kafka's prologue (committed offsets) and first cycle run in the first iteration
            return
        if not self.alive:
            return
        if c == "X":
            self.src.stopped = True
            self.alive = False
            vloop.uninstall(self.loop)
            if self.prologue:
                self.ev("Crash")
            return
        if c == "s":
            if self.loop.live_ready() or self.loop.due():
                self.loop.step()
        elif c == "a":
            if self.loop.quiescent() and self.loop.next_timer() is not None:
                self.loop.advance()
        elif c == "Z":
            # plain life-cycle calls on the running source, nothing in between: no new incarnation, nothing is read again
            def restart():
                self.src.stop()
                self.src.start()
            self.loop.do(restart)
            self.ev("Restart")
        elif c == "R":
            self.log.fail_next = True        # the next batch that reaches the consumer is refused
        elif c in ("d", "D"):
            # proviso of C09: batches of one partition complete in order -- a refused batch never completes, so nothing
            # behind it on its partition does either
            cand = [x for x in self.log.pending if not (self.cfg["inorder"] and self._d[x][0] in self.failed_parts)]
            if cand:
                d = min(cand) if c == "d" else max(cand)
                if self.cfg["inorder"]:
                    p = self._d[d][0]
                    same = [x for x in cand if self._d[x][0] == p]
                    d = min(same)
                self.loop.do(finish, self.log, d)
        self._mark = len(self.events)
        self._drain_log()
        try:        # (private attribute: observed only if it has the known shape)
            if isinstance(self.src.positions, list):
                self.ev("ObsPos", pos=[int(x) for x in self.src.positions])
        except Exception:
            pass

    def end(self):
        if self.alive and not self.prologue:
            self.src.stopped = True
            vloop.uninstall(self.loop)
            return
        if self.alive:
            for _ in range(30):
                if self.loop.live_ready() or self.loop.due():
                    self.op("s")
                else:
                    break
            self.ev("End")
            self.src.stopped = True
            vloop.uninstall(self.loop)


def run(cfg, schedule):
    sc = Scenario(cfg)
    for tok in schedule:
        sc.op(tok[0], int(tok[1:]) if len(tok) > 1 else None)
    sc.end()
    return {"cfg": cfg, "schedule": schedule, "ev": sc.events}


def random_schedule(cfg, rng, n):
    al = ["P0", "P0", "P1", "S", "s", "s", "s", "a", "a", "d", "d", "D", "X", "N", "Z"]
    if cfg.get("faults"):
        al += ["R"]
    if cfg["maxparts"] > 2:
        al += ["P2"]
    out = ["P0"] if rng.random() < 0.5 else []
    out.append("S")
    crashes = 0
    for _ in range(n):
        t = rng.choice(al)
        if t == "X":
            if crashes >= cfg["maxcrashes"]:
                continue
            crashes += 1
            out += ["X", "S"] if rng.random() < 0.8 else ["X"]
            continue
        out.append(t)
    return out


def main():
    ap = argparse.ArgumentParser()
    ap.add_argument("--tier", default="quick")
    ap.add_argument("--seed", type=int, default=0)
    ap.add_argument("--out", required=True)
    ap.add_argument("--mutant", default=None)
    a = ap.parse_args()
    if a.mutant:
        import mutants
        mutants.apply(a.mutant)
    rng = random.Random(a.seed)
    runs = []
    per = 120 if a.tier == "quick" else 1200
    for latest in (False, True):
        for refresh in (False, True):
            for maxbatch in (1, 2, 3):
                cfg = dict(np0=1 if refresh else 2, maxparts=3, maxmsgs=5, maxbatch=maxbatch, latest=latest, refresh=refresh,
                           maxcrashes=2, inorder=True, cons="hold")
                for _ in range(per // 3):
                    runs.append(run(cfg, random_schedule(cfg, rng, rng.randint(8, 22))))
                cfg2 = dict(cfg, cons="sync")
                for _ in range(per // 12):
                    runs.append(run(cfg2, random_schedule(cfg2, rng, rng.randint(8, 18))))
                # source.flatten(): the consumer works on single messages
                cfg4 = dict(cfg, shape="flatten")
                for _ in range(per // 8):
                    runs.append(run(cfg4, random_schedule(cfg4, rng, rng.randint(10, 26))))
                # the pipeline refuses a batch now and then
                # (only with a consumer the driver controls: behind a refused batch a synchronous consumer would complete the next
                # batch of that partition at once, which is outside the proviso "batches of a partition complete in order")
                for cons in ("hold",):
                    cfg3 = dict(cfg, cons=cons, faults=True)
                    for _ in range(per // 12):
                        runs.append(run(cfg3, random_schedule(cfg3, rng, rng.randint(8, 22))))
    for i, r in enumerate(runs, start=1):
        r["id"] = i
    os.makedirs(a.out, exist_ok=True)
    with open(os.path.join(a.out, "runs.json"), "w") as f:
        json.dump(runs, f, separators=(",", ":"))
    print(json.dumps({"runs": len(runs), "events": sum(len(r["ev"]) for r in runs)}))


if __name__ == "__main__":
    main()
