"""Driver for LoopBinding: builds small graphs with the real constructors (generic Stream with explicit
ensure_io_loop, and every loop-requiring node / source class) for all argument combinations and records the
loop / mode of every node after each constructor call."""
import argparse
import asyncio
import itertools
import json
import logging
import os
import random
import sys
import tempfile
import warnings

sys.path.insert(0, os.path.dirname(os.path.dirname(os.path.abspath(__file__))))
warnings.simplefilter("ignore")
logging.disable(logging.CRITICAL)

from tornado.ioloop import IOLoop        # noqa: E402
import streamz                           # noqa: E402
from streamz import Stream, core as score   # noqa: E402


class World:
    def __init__(self):
        self.cur_aio = asyncio.new_event_loop()
        asyncio.set_event_loop(self.cur_aio)
        self.CUR = IOLoop.current()
        self.L1 = IOLoop(make_current=False)
        self.L2 = IOLoop(make_current=False)
        self.bg_calls = 0
        orig = score.get_io_loop

        def get_io_loop(asynchronous=None):
            if not asynchronous:
                self.bg_calls += 1
            return orig(asynchronous)
        score.get_io_loop = get_io_loop
        self.tmp = tempfile.mkdtemp(prefix="vloopdrv")
        self.path = os.path.join(self.tmp, "f.txt")
        open(self.path, "w").close()

    def loop_id(self, lp):
        if lp is None:
            return 0
        if lp is self.L1:
            return 1
        if lp is self.L2:
            return 2
        if lp is self.CUR:
            return 3
        if score._io_loops and lp is score._io_loops[-1]:
            return 4
        return 9

    def loop_obj(self, i):
        return {0: None, 1: self.L1, 2: self.L2}[i]


MODE = {0: None, 1: True, 2: False}
MODE_ID = {None: 0, True: 1, False: 2}

# loop-requiring classes: (name, needs an upstream?, constructor)
def _classes(w):
    return {
        "buffer": (True, lambda up, kw: up.buffer(2, **kw)),
        "delay": (True, lambda up, kw: up.delay(1, **kw)),
        "rate_limit": (True, lambda up, kw: up.rate_limit(1, **kw)),
        "timed_window": (True, lambda up, kw: up.timed_window(1, **kw)),
        "timed_window_unique": (True, lambda up, kw: up.timed_window_unique(1, **kw)),
        "partition": (True, lambda up, kw: up.partition(2, **kw)),
        "latest": (True, lambda up, kw: up.latest(**kw)),
        "from_periodic": (False, lambda up, kw: Stream.from_periodic(lambda: 1, 1, **kw)),
        "from_iterable": (False, lambda up, kw: Stream.from_iterable([1], **kw)),
        "from_textfile": (False, lambda up, kw: Stream.from_textfile(w.path, **kw)),
        "filenames": (False, lambda up, kw: Stream.filenames(w.tmp, **kw)),
        "from_q": (False, lambda up, kw: streamz.sources.from_q(__import__("queue").Queue(), **kw)),
        "from_tcp": (False, lambda up, kw: Stream.from_tcp(0, **kw)),
        "from_http_server": (False, lambda up, kw: Stream.from_http_server(0, **kw)),
        "from_process": (False, lambda up, kw: Stream.from_process(["true"], **kw)),
    }


def run_trace(w, ops, classes, defer=False):
    """ops: list of (ups, la, aa, ens, cls) ; cls None = generic Stream"""
    nodes = []
    if defer:
        # the caller's current loop, asked for only after construction so that asking does not create it
        class _Cur:
            pass
    ev = []
    bg_seen = False
    for (ups, la, aa, ens, cls) in ops:
        kw = {}
        if la:
            kw["loop"] = w.loop_obj(la)
        if aa:
            kw["asynchronous"] = MODE[aa]
        c0 = w.bg_calls
        raised = False
        try:
            if cls is None:
                s = Stream(upstreams=[nodes[u - 1] for u in ups], ensure_io_loop=ens, **kw)
            else:
                needs_up, ctor = classes[cls]
                s = ctor(nodes[ups[0] - 1] if ups else None, kw)
        except ValueError:
            raised = True
            s = None
        called = w.bg_calls > c0
        if s is not None:
            nodes.append(s)
        if defer:
            w.CUR = IOLoop.current()
        ev.append({"ups": list(ups), "la": la, "aa": aa, "ens": bool(ens), "cls": cls or "Stream", "raised": raised,
                   "loop": [w.loop_id(n.loop) for n in nodes], "mode": [MODE_ID[n.asynchronous] for n in nodes],
                   "bgNew": bool(called and not bg_seen)})
        bg_seen = bg_seen or called
    # stop sources / detach so that nothing keeps running
    for n in nodes:
        try:
            if hasattr(n, "stopped"):
                n.stopped = True
        except Exception:
            pass
    return ev


def run_trace_ctx(w, ops, classes):
    """like run_trace, but CUR is the calling context's current loop (evaluated after the calls)"""
    saved = w.CUR
    w.CUR = object()
    try:
        nodes_ev = run_trace(w, ops, classes, defer=True)
    finally:
        w.CUR = saved
    return nodes_ev


def run_scenarios(w):
    """Where does a started source run?  L1 and L2 are made to run in threads of their own; a source bound to L1 (or to
    the background loop) is started from (0) this thread, which has no running loop, (1) a callback on its own loop,
    (5) a callback on another running loop.  Its sink records IOLoop.current() when called."""
    import threading
    import time as _time
    started = []
    for lp in (w.L1, w.L2):
        t = threading.Thread(target=lp.start, daemon=True)
        t.start()
        started.append(t)
    _time.sleep(0.05)
    out = []

    def call_on(lp, fn):
        done = threading.Event()
        box = {}

        def cb():
            try:
                box["r"] = fn()
            except Exception as e:      # noqa
                box["e"] = repr(e)
            done.set()
        lp.add_callback(cb)
        done.wait(10)
        return box

    polled = []        # threads in which the polling callback of from_periodic ran

    def poll_cb():
        polled.append(threading.get_ident())
        return 1
    # the batched Kafka source over the in-memory client: the completion callback of a batch (the offset commit) is a callback
    # of the source like any other -- its thread is recorded where the client's commit() is called
    import fake_ck
    sys.modules["confluent_kafka"] = fake_ck
    _commit = fake_ck.Consumer.commit

    def commit(self, *a, **k):
        polled.append(threading.get_ident())
        return _commit(self, *a, **k)
    fake_ck.Consumer.commit = commit

    def kafka(kw):
        fake_ck.BROKER.reset()
        fake_ck.BROKER.create("t", 1)
        fake_ck.BROKER.produce("t", 0, b"m0")
        return Stream.from_kafka_batched("t", {"bootstrap.servers": "x", "group.id": "g", "auto.offset.reset": "earliest"}, poll_interval=0.01, npartitions=1, **kw)
    kinds = {"from_iterable": lambda kw: Stream.from_iterable([1, 2], **kw),
             "from_periodic": lambda kw: Stream.from_periodic(poll_cb, 0.01, **kw),
             "from_kafka_batched": kafka}
    for cls, ctor in kinds.items():
        for la, aa in ((1, 0), (1, 1), (0, 0), (0, 2)):
            for frm in (0, 1, 5):
                if la == 0 and frm == 1:
                    continue            # (the background loop's thread is not ours to call into)
                kw = {}
                if la:
                    kw["loop"] = w.L1
                if aa:
                    kw["asynchronous"] = MODE[aa]
                c0 = w.bg_calls
                src = ctor(kw)
                seen = []
                ran = threading.Event()

                del polled[:]
                sink_threads = []

                def rec(x, seen=seen, ran=ran, sink_threads=sink_threads):
                    seen.append(IOLoop.current())
                    sink_threads.append(threading.get_ident())
                    ran.set()
                sink = src.sink(rec)
                chain = [src]
                if cls == "from_kafka_batched":
                    # (the factory hands back the node behind the polling source: source -> starmap(get_message_batch))
                    chain = [src.upstreams[0], src]
                ev = [{"ups": [], "la": la, "aa": aa, "ens": True, "cls": cls, "raised": False,
                       "loop": [w.loop_id(chain[0].loop)], "mode": [MODE_ID[chain[0].asynchronous]], "bgNew": False}]
                for j, nd_ in enumerate(chain[1:] + [sink], start=1):
                    upto = (chain + [sink])[:j + 1]
                    ev.append({"ups": [j], "la": 0, "aa": 0, "ens": False, "cls": "sink" if nd_ is sink else "Stream", "raised": False,
                               "loop": [w.loop_id(n_.loop) for n_ in upto],
                               "mode": [MODE_ID[n_.asynchronous] for n_ in upto], "bgNew": False})
                ev[0]["bgNew"] = bool(w.bg_calls > c0)        # (per trace: the specification starts every trace without a background loop)
                if frm == 0:
                    src.start()
                elif frm == 1:
                    call_on(w.L1, src.start)
                else:
                    call_on(w.L2, src.start)
                ran.wait(3)
                if cls == "from_kafka_batched":
                    # (the commit follows the delivery by one loop callback)
                    t_end = _time.time() + 15       # (generous: it ends as soon as the commit is seen)
                    while seen and not polled and _time.time() < t_end:
                        _time.sleep(0.005)
                c1 = w.bg_calls
                on = 0
                if seen:
                    on = w.loop_id(seen[0])
                    if seen[0] is w.L2:
                        on = 5
                    # every callback of the source -- the polling function included -- runs on that loop's thread
                    if any(t != sink_threads[0] for t in polled):
                        on = 9
                    # ... and running it asks for no other loop (a pipeline that has a loop of its own never starts the
                    # background loop later on)
                    if cls == "from_kafka_batched" and la and c1 > c0 + (1 if ev[0]["bgNew"] else 0):
                        on = 9
                    if cls == "from_kafka_batched" and not polled:
                        on = 9              # the batch was never reported as done
                ev.append({"run": 1, "from": frm, "on": on})
                try:
                    call_on(src.loop, chain[0].stop)
                except Exception:
                    pass
                out.append(ev)
    # a blocking pipeline (bound to the shared background loop) fed by emit() from a plain thread and from a callback that
    # runs on another loop: its nodes' callbacks run on the background loop, whoever emits from wherever
    for frm in (0, 5):
        for shape in ("rate_limit", "buffer"):
            c0 = w.bg_calls
            src = Stream(asynchronous=False)
            e1 = {"ups": [], "la": 0, "aa": 2, "ens": False, "cls": "Stream", "raised": False,
                  "loop": [w.loop_id(src.loop)], "mode": [MODE_ID[src.asynchronous]], "bgNew": bool(w.bg_calls > c0)}
            node = src.rate_limit(0.001) if shape == "rate_limit" else src.buffer(2)
            e2 = {"ups": [1], "la": 0, "aa": 0, "ens": True, "cls": shape, "raised": False,
                  "loop": [w.loop_id(src.loop), w.loop_id(node.loop)],
                  "mode": [MODE_ID[src.asynchronous], MODE_ID[node.asynchronous]], "bgNew": False}
            seen = []
            ran = threading.Event()

            def rec2(x, seen=seen, ran=ran):
                seen.append(IOLoop.current())
                ran.set()
            sink = node.sink(rec2)
            e3 = {"ups": [2], "la": 0, "aa": 0, "ens": False, "cls": "sink", "raised": False,
                  "loop": [w.loop_id(src.loop), w.loop_id(node.loop), w.loop_id(sink.loop)],
                  "mode": [MODE_ID[src.asynchronous], MODE_ID[node.asynchronous], MODE_ID[sink.asynchronous]], "bgNew": False}
            if frm == 0:
                t = threading.Thread(target=src.emit, args=(1,), daemon=True)
                t.start()
                t.join(10)
            else:
                call_on(w.L2, lambda: src.emit(1))
            ran.wait(3)
            on = 0
            if seen:
                on = 5 if seen[0] is w.L2 else w.loop_id(seen[0])
            out.append([e1, e2, e3, {"run": 1, "from": frm, "on": on}])
    for lp in (w.L1, w.L2):
        lp.add_callback(lp.stop)
    return out


def choices(n):
    ups = [()] + [(u,) for u in range(1, n + 1)] + [(u, v) for u in range(1, n + 1) for v in range(1, n + 1) if u != v]
    return [(U, la, aa, ens) for U in ups for la in (0, 1, 2) for aa in (0, 1, 2) for ens in (False, True)]


def main():
    ap = argparse.ArgumentParser()
    ap.add_argument("--tier", default="quick")
    ap.add_argument("--seed", type=int, default=0)
    ap.add_argument("--out", required=True)
    ap.add_argument("--mutant", default=None)
    a = ap.parse_args()
    if a.mutant:
        import mutants
        mutants.apply(a.mutant)
    rng = random.Random(a.seed)
    w = World()
    classes = _classes(w)
    traces = []
    # all sequences of two generic constructor calls
    for o1 in choices(0):
        for o2 in choices(1):
            traces.append([o1 + (None,), o2 + (None,)])
    # sampled sequences of three
    n3 = 1500 if a.tier == "quick" else 15000
    for _ in range(n3):
        o1 = rng.choice(choices(0))
        o2 = rng.choice(choices(1))
        # the second call may have raised: then only one node exists
        traces.append([o1 + (None,), o2 + (None,), ("?",)])
    # every loop-requiring class as first node and on top of a generic node
    for cls, (needs_up, _) in classes.items():
        for la in (0, 1, 2):
            for aa in (0, 1, 2):
                if needs_up:
                    for o1 in choices(0):
                        traces.append([o1 + (None,), ((1,), la, aa, True, cls)])
                else:
                    traces.append([((), la, aa, True, cls)])
    out = []
    # caller contexts: constructor calls made from a fresh thread that has no event loop yet, and from inside a
    # running loop; the "current loop" is whatever IOLoop.current() is for that caller
    import threading
    ctx_ops = [o + (None,) for o in choices(0)] + [((), la, aa, True, cls) for cls, (nu, _) in classes.items() if not nu
                                                    for la in (0,) for aa in (0, 1, 2)]
    for o1 in ctx_ops:
        box = {}

        def in_thread():
            try:
                ev = run_trace_ctx(w, [o1], classes)
                box["ev"] = ev
            except Exception as e:      # noqa
                box["err"] = repr(e)
        t = threading.Thread(target=in_thread)
        t.start()
        t.join(20)
        if "ev" in box:
            out.append(box["ev"])

        async def inside():
            return run_trace_ctx(w, [o1], classes)
        lp = asyncio.new_event_loop()
        try:
            out.append(lp.run_until_complete(inside()))
        finally:
            asyncio.set_event_loop(w.cur_aio)
    out += run_scenarios(w)
    for ops in traces:
        if ops[-1] == ("?",):
            # decide the third op once we know how many nodes exist
            ev = run_trace(w, ops[:2], classes)
            n = len(ev[-1]["loop"])
            o3 = rng.choice(choices(n))
            ev = run_trace(w, ops[:2] + [o3 + (None,)], classes)
        else:
            ev = run_trace(w, ops, classes)
        out.append(ev)
    os.makedirs(a.out, exist_ok=True)
    with open(os.path.join(a.out, "runs.json"), "w") as f:
        json.dump(out, f, separators=(",", ":"))
    print(json.dumps({"runs": len(out), "events": sum(len(r) for r in out)}))
    os._exit(0)      # background loops / servers created by the constructors are not worth shutting down


if __name__ == "__main__":
    main()
