"""Driver for sources: runs a real source (from_periodic / from_iterable / from_textfile / filenames) with a
recording consumer on the virtual-time loop under start/stop histories and file-write schedules.

Schedule alphabet:  S start   T stop   s one loop iteration   a advance clock to next timer   w advance by one
                    d finish the unfinished consumer call     W<k> write chunk k (text file)   C<k> create file k
"""
import argparse
import itertools
import json
import logging
import os
import random
import shutil
import sys
import tempfile
import warnings

sys.path.insert(0, os.path.dirname(os.path.dirname(os.path.abspath(__file__))))
warnings.simplefilter("ignore")
logging.disable(logging.CRITICAL)

import vloop     # noqa: E402
import aprobe    # noqa: E402
from streamz import Stream   # noqa: E402
from tornado.ioloop import IOLoop   # noqa: E402


class Scenario:
    def __init__(self, cfg):
        self.cfg = cfg
        self.loop = vloop.install()
        self.log = aprobe.Log(self.loop)
        self.tmp = None
        k = cfg["kind"]
        self.counter = 0
        if k == "periodic":
            def cb():
                self.counter += 1
                return self.counter
            src = Stream.from_periodic(cb, poll_interval=cfg["poll"], asynchronous=True, loop=IOLoop.current())
        elif k in ("custom_gen", "custom_future"):
            # a user-defined source whose run() is not a native coroutine (documented: "override this method directly"):
            # a tornado generator coroutine / a plain function returning a Future that wraps one -- polling like from_periodic
            from streamz.sources import Source
            from tornado import gen
            scen, poll = self, cfg["poll"]

            class Ticker(Source):
                @gen.coroutine
                def _loop(self):
                    while not self.stopped:
                        scen.counter += 1
                        yield self._emit(scen.counter)
                        yield gen.sleep(poll)

                if k == "custom_gen":
                    run = _loop
                else:
                    def run(self):
                        return gen.convert_yielded(self._loop())
            src = Ticker(asynchronous=True, loop=IOLoop.current())
        elif k == "kafka_poll":
            # from_kafka (one message per emission) over the in-memory client: a polling loop of its own (poll; a message ->
            # emit it and poll again; none -> sleep), with a start() of its own
            import fake_ck
            sys.modules["confluent_kafka"] = fake_ck
            fake_ck.BROKER.reset()
            fake_ck.BROKER.create("t", 1)
            self.produced = 0
            for _ in range(cfg.get("pre", 2)):
                self.produce()
            src = Stream.from_kafka(["t"], {"bootstrap.servers": "x", "group.id": "g", "auto.offset.reset": "earliest"},
                                    poll_interval=cfg["poll"], asynchronous=True, loop=IOLoop.current())
        elif k == "iterable":
            src = Stream.from_iterable(iter(range(1, cfg["ni"] + 1)), asynchronous=True, loop=IOLoop.current())
        elif k == "iterable_list":
            src = Stream.from_iterable(list(range(1, cfg["ni"] + 1)), asynchronous=True, loop=IOLoop.current())
        elif k == "textfile":
            self.tmp = tempfile.mkdtemp(prefix="vsrc", dir=cfg.get("tmpdir"))
            self.path = os.path.join(self.tmp, "f.txt")
            with open(self.path, "wb") as f:
                f.write(cfg.get("initial", "").encode("utf-8"))
            self.wfile = open(self.path, "ab", buffering=0)
            src = Stream.from_textfile(self.path, poll_interval=cfg["poll"], delimiter=cfg["delimiter"],
                                       from_end=cfg.get("from_end", False), asynchronous=True, loop=IOLoop.current())
        elif k == "filenames":
            self.tmp = tempfile.mkdtemp(prefix="vsrc", dir=cfg.get("tmpdir"))
            for d in cfg.get("predirs", []):
                os.makedirs(os.path.join(self.tmp, d), exist_ok=True)
            src = Stream.filenames(os.path.join(self.tmp, cfg.get("pattern", "*.txt")), poll_interval=cfg["poll"], asynchronous=True, loop=IOLoop.current())
        else:
            raise ValueError(k)
        self.src = src
        tail = src
        if k == "kafka_poll":
            tail = self._decode = src.map(int)
        if cfg.get("via") == "map_async":
            # an asynchronous node between the source and the consumer: stopping *it* stops the source as well -- and an element
            # of the cycle in progress that reaches it afterwards must not start the source again
            async def ident(x):
                return x
            if cfg.get("via_stop_at") is not None:
                # a sibling consumer, served before the map_async node, stops the pipeline through that node when it sees the
                # k-th record: the record itself, and the rest of the batch, then reach a map_async node that has been stopped
                seen = [0]

                def stopper(x, seen=seen):
                    seen[0] += 1
                    if seen[0] == cfg["via_stop_at"]:
                        self.log.add("stop")
                        self.via.stop()
                self._stopper = src.sink(stopper)
            tail = self.via = src.map_async(ident)
        self.probe = aprobe.Probe(tail, self.log, mode=cfg.get("cons", "future"))
        if cfg.get("stop_at"):
            # the consumer itself stops the source when it sees a given item (a stop between two items of a
            # fully synchronous pipeline, where the driver cannot get in)
            probe, log, k = self.probe, self.log, cfg["stop_at"]
            orig = probe.update

            def update(x, who=None, metadata=None):
                r = orig(x, who=who, metadata=metadata)
                if x == k:
                    log.add("stop")
                    src.stop()
                return r
            probe.update = update

    def produce(self):
        import fake_ck
        self.produced += 1
        fake_ck.BROKER.produce("t", 0, str(self.produced).encode())

    def op(self, c, arg=None):
        loop, log = self.loop, self.log
        n0 = len(log.ev)
        if c == "K":
            self.produce()        # (the broker is outside the model: whether a poll finds a message is the environment's choice)
        if c == "S":
            log.add("start")
            loop.do(self.src.start)
        elif c == "T":
            log.add("stop")
            loop.do(self.src.stop)
        elif c == "M":
            log.add("stop")
            loop.do(self.via.stop)
        elif c == "d":
            if log.pending:
                loop.do(aprobe.finish_delivery, log, min(log.pending))
        elif c == "s":
            loop.step()
        elif c == "a":
            t0 = loop.time()
            t = loop.advance()
            if t != t0:
                log.add("time", now=t)
        elif c == "w":
            log.add("time", now=loop.advance(1))
        elif c == "P":
            # one poll: let the clock reach the next timer, then run until nothing is ready
            if loop.quiescent() and loop.next_timer() is not None and loop.next_timer() > loop.time():
                log.add("time", now=loop.advance())
            for _ in range(50):
                if not (loop.live_ready() or loop.due()):
                    break
                loop.step()
        elif c == "W":
            chunk = self.cfg["chunks"][arg]
            log.add("write", k=arg, data=list(chunk))
            self.wfile.write(bytes(chunk))
        elif c == "C":
            name = self.cfg["files"][arg]
            log.add("create", name=name)
            p = os.path.join(self.tmp, name)
            os.makedirs(os.path.dirname(p), exist_ok=True)
            open(p, "w").close()
        if len(log.ev) > n0:
            log.ev[-1]["obs"] = {"stopped": bool(self.src.stopped)}
            if self.cfg["kind"] == "textfile":
                try:        # (private attribute: observed only if it has the known shape)
                    log.ev[-1]["obs"]["buffer"] = list(self.src.buffer.encode("utf-8"))
                except Exception:
                    pass

    def enabled(self, c, arg=None):
        loop, log = self.loop, self.log
        if c in ("S", "T"):
            return True
        if c == "K":
            return self.cfg["kind"] == "kafka_poll" and self.produced < self.cfg["ni"]
        if c == "d":
            return bool(log.pending)
        if c == "s":
            return loop.live_ready() > 0 or loop.due() > 0
        if c == "a":
            nt = loop.next_timer()
            return loop.quiescent() and nt is not None and nt > loop.time()
        if c == "w":
            return loop.quiescent() and loop.next_timer() is not None
        return True

    def drain(self, polls=3):
        loop, log = self.loop, self.log
        log.add("drain")
        n = 0
        for _ in range(200):
            if loop.live_ready() or loop.due():
                self.op("s")
                continue
            if log.pending:
                self.op("d")
                continue
            if n < polls and loop.next_timer() is not None:
                n += 1
                self.op("a")
                continue
            break
        log.add("end", obs={"stopped": bool(self.src.stopped)})

    def close(self):
        try:
            self.src.stop()
        except Exception:
            pass
        vloop.uninstall(self.loop)
        try:        # from_textfile keeps its file open for the life of the source
            f = getattr(self.src, "file", None)
            if f is not None:
                f.close()
        except Exception:
            pass
        if self.tmp:
            try:
                self.wfile.close()
            except Exception:
                pass
            shutil.rmtree(self.tmp, ignore_errors=True)


def run(cfg, schedule, drain_polls=3):
    sc = Scenario(cfg)
    try:
        for tok in schedule:
            c, arg = tok[0], (int(tok[1:]) if len(tok) > 1 else None)
            if sc.enabled(c, arg):
                sc.op(c, arg)
        sc.drain(drain_polls)
        return {"cfg": dict(cfg), "schedule": list(schedule), "ev": sc.log.ev}
    finally:
        sc.close()


def enumerate_schedules(cfg, al, depth, limit, maxcalls=4):
    out = []

    def rec(prefix):
        if len(out) >= limit:
            return
        if len(prefix) == depth:
            out.append(list(prefix))
            return
        sc = Scenario(cfg)
        try:
            for tok in prefix:
                sc.op(tok[0], int(tok[1:]) if len(tok) > 1 else None)
            en = [t for t in al if sc.enabled(t[0])]
        finally:
            sc.close()
        ncalls = sum(1 for t in prefix if t in ("S", "T"))
        en = [t for t in en if not (t in ("S", "T") and ncalls >= maxcalls)]
        if not en:
            out.append(list(prefix))
            return
        for t in en:
            rec(prefix + [t])
    rec([])
    return out


def main():
    ap = argparse.ArgumentParser()
    ap.add_argument("--cfgs", required=True)
    ap.add_argument("--seed", type=int, default=0)
    ap.add_argument("--out", required=True)
    ap.add_argument("--mutant", default=None)
    ap.add_argument("--depth", type=int, default=7)
    ap.add_argument("--limit", type=int, default=400)
    ap.add_argument("--random", type=int, default=200)
    ap.add_argument("--maxlen", type=int, default=16)
    ap.add_argument("--explicit", default=None)     # JSON file: list of [cfg, schedule] to run as given
    a = ap.parse_args()
    if a.mutant:
        import mutants
        mutants.apply(a.mutant)
    rng = random.Random(a.seed)
    runs = []
    if a.explicit:
        with open(a.explicit) as f:
            for cfg, sched in json.load(f):
                runs.append(run(cfg, sched, drain_polls=4))
    for cfg in json.loads(a.cfgs):
        al = ["S", "T", "s", "d", "a"] if cfg.get("cons", "future") != "sync" else ["S", "T", "s", "a"]
        if cfg["kind"] == "kafka_poll":
            al = al + ["K"]
        scheds = enumerate_schedules(cfg, al, a.depth, a.limit)
        w = {"S": 2, "T": 2, "s": 5, "d": 2, "a": 3, "K": 2}
        for _ in range(a.random):
            n = rng.randint(5, a.maxlen)
            scheds.append([rng.choices(al, weights=[w[t] for t in al])[0] for _ in range(n)])
        seen = set()
        for s in scheds:
            key = " ".join(s)
            if key not in seen:
                seen.add(key)
                runs.append(run(cfg, s))
    os.makedirs(a.out, exist_ok=True)
    with open(os.path.join(a.out, "runs.json"), "w") as f:
        json.dump(runs, f, separators=(",", ":"))
    print(json.dumps({"runs": len(runs), "events": sum(len(r["ev"]) for r in runs)}))


if __name__ == "__main__":
    main()
