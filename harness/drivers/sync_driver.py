"""Driver for SyncFlow: runs catalogue programs on the real streamz classes and records one
trace event per public call (emit / flush) with the full projection after the call.

usage: sync_driver.py --tier quick|thorough --seed N --out DIR [--shards K] [--mode async|default]
Writes DIR/sync_<k>.json (a JSON array of traces) and DIR/sync_meta.json.
"""
import argparse
import asyncio
import itertools
import json
import os
import random
import sys
import warnings

sys.path.insert(0, os.path.dirname(os.path.dirname(os.path.abspath(__file__))))
warnings.simplefilter("ignore")

import logging
logging.disable(logging.CRITICAL)

import programs as P  # noqa: E402
import build as B     # noqa: E402

MAX_EMITS = 8
NTAGS = 3 * MAX_EMITS + 3


def md_of(choice, k):
    return {"none": [], "one": [3 * k], "two": [3 * k, 3 * k + 1], "noref": [3 * k + 2],
            "mixed": [3 * k + 2, 3 * k]}[choice]


EXC_TYPES = {"Injected": None, "StopIteration": StopIteration, "KeyError": KeyError, "ValueError": ValueError,
             "GeneratorExit": None, "AttributeError": AttributeError}


def run_trace(name, prog, ops, mode, exc="Injected"):
    """ops: list of ("emit", entry, val, mdchoice, failAt) | ("flush", node, failAt)"""
    B.Obs.reset()
    B.Plan.exc = EXC_TYPES.get(exc)
    injected = (B.Plan.exc or B.Injected,)
    cbs = B.Obs.cbs
    tags = B.make_tags(NTAGS, cbs)
    skw = {"asynchronous": True} if mode == "async" else {}
    built = B.build(prog, stream_kwargs=skw)
    steps = []
    B.Obs.enabled = True
    try:
        for k, op in enumerate(ops):
            B.Obs.callno = k + 1
            d0, e0 = len(B.Obs.dlog), len(B.Obs.elog)
            raised = False
            crash = None
            if op[0] == "emit":
                _, entry, val, ch, fail_at = op
                mdl = md_of(ch, k)
                md = [tags[t] for t in mdl]
                B.Plan.reset(fail_at)
                try:
                    fut = built.nodes[entry].emit(val, metadata=md if md else None)
                    if fut is not None:
                        if not fut.done():
                            # (a bounded zip hands a pending awaitable to a producer that is too far ahead; a synchronous
                            # producer does not wait for it -- nothing else in these programs can be pending)
                            if not any(nd["kind"] == "zip" and nd.get("m") for nd in prog):
                                raise RuntimeError("emit awaitable pending in a synchronous program: %s" % name)
                        elif fut.exception() is not None:
                            if not isinstance(fut.exception(), injected) and not (fail_at and isinstance(fut.exception(), RuntimeError)):
                                raise fut.exception()
                            raised = True
                except injected:
                    raised = bool(fail_at)
                    if not fail_at:
                        raise
                except Exception as e:      # the real code blew up on a well-typed program
                    raised = True
                    crash = repr(e)[:200]
                st = {"ev": "emit", "e": entry, "x": B.enc(val), "md": mdl, "failAt": sorted(fail_at)}
            else:
                _, n, fail_at = op
                B.Plan.reset(fail_at)
                try:
                    built.nodes[n].flush()
                except injected:
                    raised = True
                except Exception as e:
                    raised = True
                    crash = repr(e)[:200]
                st = {"ev": "flush", "e": n, "x": ["i", 0], "md": [], "failAt": sorted(fail_at)}
            st["raised"] = raised
            st["dlog"] = [d[:5] for d in B.Obs.dlog[d0:]]
            st["elog"] = [e for e in B.Obs.elog[e0:]]
            st["opq"] = []
            st["nst"] = B.project(built, st["opq"])
            st["downs"] = B.project_downs(built)
            st["rc"] = B.project_rc(tags, NTAGS)
            st["cbs"] = list(cbs)
            st["sinks"] = [[i, [B.enc(x) for x in out]] for i, out in sorted(built.sink_out.items())]
            steps.append(st)
            if crash:
                st["crash"] = crash
                break
    finally:
        B.Obs.enabled = False
        B.destroy(built)
    return {"name": name, "prog": P.prog_json(prog), "steps": steps, "exc": exc}


def entries(prog):
    return [i for i, nd in enumerate(prog, start=1) if nd["kind"] == "stream" and not nd["ups"]]


def collects(prog):
    return [i for i, nd in enumerate(prog, start=1) if nd["kind"] == "collect"]


MD_PATTERNS = [("two",) * 8, ("none", "one", "two", "mixed", "noref", "two", "one", "none"),
               ("mixed", "two", "noref", "one", "two", "none", "two", "mixed"),
               # tagged elements followed by untagged ones and tagged ones again (buffers of data and of metadata must stay aligned)
               ("two", "none", "one", "none", "two", "none", "mixed", "two"),
               ("one", "none", "none", "two", "noref", "none", "one", "none")]


def plans_for(prog, tier, rng, vals=(0, 1, 2)):
    """input plans for one program"""
    ents = entries(prog)
    cols = collects(prog)
    L = 3 if tier == "quick" else 4
    plans = []
    atoms = [(e, v) for e in ents for v in vals]
    if len(atoms) ** L <= (81 if tier == "quick" else 700):
        seqs = list(itertools.product(atoms, repeat=L))
    else:
        seqs = [tuple(rng.choice(atoms) for _ in range(L + 1)) for _ in range(60 if tier == "quick" else 400)]
    feedback = any(u > i for i, nd in enumerate(prog, start=1) for u in nd["ups"])
    for si, seq in enumerate(seqs):
        # metadata is not sent round feedback cycles (see SyncFlow.tla, RcBalanced)
        pat = ("none",) * 8 if feedback else MD_PATTERNS[si % len(MD_PATTERNS)]
        ops = [("emit", e, v, pat[i], ()) for i, (e, v) in enumerate(seq)]
        if cols:
            # flush in the middle and at the end (and a double flush = empty flush)
            mid = 1 + si % L
            ops = ops[:mid] + [("flush", cols[0], ())] + ops[mid:] + [("flush", cols[0], ())]
            if si % 5 == 0:
                ops.append(("flush", cols[0], ()))
        plans.append(ops[:MAX_EMITS])
    if cols and any(nd["kind"] == "collect" and nd["m"] for nd in prog):
        # a bounded container: more arrivals than it holds, before the first flush and between two flushes
        for k in range(6 if tier == "quick" else 30):
            seq = [rng.choice(atoms) for _ in range(6)]
            pat = MD_PATTERNS[k % len(MD_PATTERNS)]
            ops = [("emit", e, v, pat[i], ()) for i, (e, v) in enumerate(seq)]
            cut = 1 + k % 3
            ops = ops[:cut] + [("flush", cols[0], ())] + ops[cut:cut + 3 + k % 2] + [("flush", cols[0], ())]
            plans.append(ops[:MAX_EMITS])
    # longer random runs with more repeats (duplicates matter for unique / partition_unique)
    for _ in range(4 if tier == "quick" else 25):
        n = rng.randint(5, MAX_EMITS)
        pat = ("none",) * 8 if feedback else rng.choice(MD_PATTERNS)
        ops = [("emit",) + rng.choice(atoms) + (pat[i], ()) for i in range(n)]
        if cols:
            j = rng.randrange(n)
            ops[j] = ("flush", cols[0], ())
        plans.append(ops)
    return plans


def fail_plans_for(prog, tier, rng, vals=(0, 1, 2)):
    ents = entries(prog)
    cols = collects(prog)
    atoms = [(e, v) for e in ents for v in vals]
    plans = []
    count = 6 if tier == "quick" else 30
    for _ in range(count):
        n = rng.randint(3, 5)
        ops = []
        for i in range(n):
            fa = ()
            r = rng.random()
            if r < 0.4:
                fa = (rng.randint(1, 3),)
            elif r < 0.5:
                fa = (1, 2)
            e, v = rng.choice(atoms)
            ops.append(("emit", e, v, "none" if any(u > i for i, nd in enumerate(prog, start=1) for u in nd["ups"]) else "two", fa))
        if cols:
            ops.append(("flush", cols[0], (1,) if rng.random() < 0.5 else ()))
            ops.append(("emit",) + rng.choice(atoms) + ("two", ()))
            ops.append(("flush", cols[0], ()))
        plans.append(ops[:MAX_EMITS])
    return plans


def main():
    ap = argparse.ArgumentParser()
    ap.add_argument("--tier", default="quick")
    ap.add_argument("--seed", type=int, default=0)
    ap.add_argument("--out", required=True)
    ap.add_argument("--shards", type=int, default=8)
    ap.add_argument("--mode", default="async")
    ap.add_argument("--what", default="plain")       # plain | fail
    ap.add_argument("--only", default=None)          # substring filter on program names
    ap.add_argument("--mutant", default=None)        # binding canary: in-memory mutant of streamz
    ap.add_argument("--explicit", default=None)      # JSON file: list of [name, program, ops] to run exactly as given
    a = ap.parse_args()
    rng = random.Random(a.seed)
    loop = asyncio.new_event_loop()
    asyncio.set_event_loop(loop)
    if a.mutant:
        import mutants
        mutants.apply(a.mutant)
    B.install_probes()
    progs = P.catalogue(a.tier)
    progs += P.sample_chains(rng, 150 if a.tier == "quick" else 1500, maxlen=3)
    if a.only:
        progs = [p for p in progs if a.only in p[0]]
    traces = []
    if a.explicit:
        progs = []
        with open(a.explicit) as f:
            for name, prog, ops in json.load(f):
                md_of_tags = {(): "none"}
                ops2 = []
                for k, (ev, e, x, md, fa) in enumerate(ops):
                    if ev == "emit":
                        ch = {0: "none", 1: ("one" if md and md[0] % 3 == 0 else "noref"), 2: ("two" if md and md[0] % 3 == 0 else "mixed")}[len(md)]
                        ops2.append(("emit", e, B.dec(x), ch, tuple(fa)))
                    else:
                        ops2.append(("flush", e, tuple(fa)))
                traces.append(run_trace(name, prog, ops2, a.mode))
    for name, prog in progs:
        if a.what == "fail" and any((nd["kind"] == "zip" and nd.get("m")) or nd.get("f") in ("freq", "bsum", "batch", "cat") or nd.get("f", "").startswith("b_")
                                    for nd in prog):
            # (a Batch operation calls the user's function once per element of the batch, or not at all: the failure plan counts
            # node-level invocations)
            continue        # (and frequencies() calls no user function that a failure could be planted in)        # (a failure inside a pending awaitable cannot be observed by a producer that does not wait)
        plans = plans_for(prog, a.tier, rng) if a.what == "plain" else fail_plans_for(prog, a.tier, rng)
        if name.startswith("chain:") and name.count(">") >= 1 and a.what == "plain":
            # longer chains: thin the exhaustive part
            plans = plans[::3] if a.tier == "quick" else plans
        for pi, ops in enumerate(plans):
            exc = "Injected"
            if a.what == "fail" and not any(nd["kind"] == "partition" for nd in prog):
                # any exception type must reach the emitter (a generator-based coroutine turns StopIteration into
                # RuntimeError, so programs with partition keep the plain type)
                exc = ["Injected", "StopIteration", "KeyError", "ValueError", "AttributeError"][pi % 5]
            traces.append(run_trace(name, prog, ops, a.mode, exc))
    if a.mutant == "corrupt_log":
        for t in traces:
            d = t["steps"][-1]["dlog"]
            if d:
                d[-1][2] = ["i", 99]
    os.makedirs(a.out, exist_ok=True)
    for i, t in enumerate(traces):
        t["id"] = i + 1
    # (bounded files: the JSON reader behind TLC's Json module gives up on files of ~100 MB)
    nsh = max(a.shards, (len(traces) + 3999) // 4000)
    shards = [[] for _ in range(nsh)]
    for i, t in enumerate(traces):
        shards[i % nsh].append(t)
    for k, sh in enumerate(shards):
        with open(os.path.join(a.out, "sync_%s_%d.json" % (a.what, k)), "w") as f:
            json.dump(sh, f, separators=(",", ":"))
    meta = {"traces": len(traces), "programs": len(progs), "steps": sum(len(t["steps"]) for t in traces),
            "max_emits": MAX_EMITS, "ntags": NTAGS}
    with open(os.path.join(a.out, "sync_%s_meta.json" % a.what), "w") as f:
        json.dump(meta, f)
    print(json.dumps(meta))


if __name__ == "__main__":
    main()
