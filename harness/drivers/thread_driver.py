"""Driver for ThreadSync: a pipeline whose loop runs in a background thread (asynchronous=False), fed by producer threads
that call the blocking source.emit(x).  The consumer returns a Future per element; the driver decides when -- and which of
them together, in one loop callback -- finish or raise.  Events carry a global sequence number taken under one lock."""
import argparse
import itertools
import json
import logging
import os
import random
import sys
import threading
import time
import warnings

sys.path.insert(0, os.path.dirname(os.path.dirname(os.path.abspath(__file__))))
warnings.simplefilter("ignore")
logging.disable(logging.CRITICAL)

from tornado.concurrent import Future   # noqa: E402
from streamz import Stream              # noqa: E402


class ConsumerError(Exception):
    pass


class World:
    def __init__(self, shape, looped=False):
        self.looped = looped      # producer threads that run an event loop of their own (a notebook, asyncio.run, a web handler)
        self.lock = threading.Lock()
        self.ev = []
        self.futs = {}          # producer -> Future of its element at the consumer
        self.threads = {}
        self.ncall = {}
        world = self

        class Consumer(Stream):
            def update(self, x, who=None, metadata=None):
                p = x[0]
                fut = Future()
                with world.lock:
                    world.futs[p] = fut
                    world.ev.append({"ev": "Deliver", "p": p, "k": x[1]})
                return fut
        self.src = Stream(asynchronous=False)
        node = self.src
        if shape == "map":
            node = node.map(lambda x: x)
        elif shape == "filter_map":
            node = node.filter(lambda x: True).map(lambda x: x)
        if shape == "forward":
            # two sinks that forward into other streams (each with its loop): nested emits on the loop thread, inside the outer
            # blocking emit -- they hand back awaitables, the outer emit waits for them
            self.side = Stream(asynchronous=False)
            self.side_sink = self.side.sink(lambda x: None)
            self.inner = Stream(asynchronous=False)
            self.fw1 = node.sink(self.side.emit)
            self.fw2 = node.sink(self.inner.emit)
            node = self.inner
        self.cons = Consumer(node)
        self.loop = self.src.loop

    def log(self, **kw):
        with self.lock:
            self.ev.append(kw)

    def async_emit(self, p, fails):
        """in the calling (producer) thread: one element through an asynchronous pipeline that this thread runs itself"""
        import asyncio
        from streamz.core import thread_state

        def f(x):
            if fails:
                raise ConsumerError("function of the asynchronous pipeline failed")
            return x

        async def main():
            a = Stream(asynchronous=True)
            a.map(f).sink(lambda x: None)
            await a.emit(1)
        try:
            asyncio.run(main())
        except ConsumerError:
            pass
        self.log(ev="AsyncEmit", p=p, fails=bool(fails), flag=bool(getattr(thread_state, "asynchronous", False)))

    def call(self, p, pre=None):
        k = self.ncall[p] = self.ncall.get(p, 0) + 1
        if pre is None:
            self.log(ev="Call", p=p)

        def body():
            kind = "ok"
            if pre is not None:
                # the same thread first pushes an element through an asynchronous pipeline of its own (which may fail)
                self.async_emit(p, pre == "fail")
                self.log(ev="Call", p=p)
            try:
                self.src.emit((p, k))
            except ConsumerError:
                kind = "consumer"
            except AttributeError:
                kind = "attr"
            except Exception as e:      # noqa
                kind = "other:" + type(e).__name__
            self.log(ev="Return", p=p, k=k, kind=kind)
        if self.looped:
            inner = body

            def body():       # noqa: F811
                import asyncio

                async def main():
                    inner()   # the blocking emit, called from inside this thread's own running loop
                asyncio.run(main())
        t = threading.Thread(target=body, daemon=True)
        self.threads[p] = t
        t.start()
        # the element reaches the consumer (bounded wait: a pipeline that never delivers is reported by the trace)
        for _ in range(2500):
            with self.lock:
                if p in self.futs:
                    break
            time.sleep(0.002)
        time.sleep(0.01)        # an emit that returned without waiting would have logged its Return by now

    def finish(self, ps, bad):
        done = threading.Event()

        def cb():
            with self.lock:
                self.ev.append({"ev": "Finish", "ps": list(ps), "bad": sorted(bad)})
                futs = [(p, self.futs.pop(p, None)) for p in ps]
            for p, f in futs:
                if f is None:       # (the element never reached the consumer: the trace says so -- no Deliver event)
                    continue
                if p in bad:
                    f.set_exception(ConsumerError("consumer of producer %d failed" % p))
                else:
                    f.set_result(None)
            done.set()
        self.loop.add_callback(cb)
        done.wait(10)
        for p in ps:
            self.threads[p].join(10)
            if self.threads[p].is_alive():
                self.log(ev="Stuck", p=p)

    def suspended(self):
        with self.lock:
            return sorted(self.futs)


def run(shape, np_, nc, script, looped=False):
    w = World(shape, looped)
    for op in script:
        if op[0] == "call":
            w.call(op[1], op[2] if len(op) > 2 else None)
        else:
            w.finish(op[1], set(op[2]))
    # whatever is still suspended is finished one by one so that no thread is left behind
    for p in w.suspended():
        w.finish([p], set())
    w.log(ev="End")
    return {"shape": shape + ("+looped-producers" if looped else ""), "np": np_, "nc": nc, "script": [list(o) for o in script], "ev": w.ev}


def scripts(np_, nc, rng, count):
    """random scripts over {call p, finish a sequence of suspended producers in one callback (some raising)}"""
    out = []
    for _ in range(count):
        ncall = {p: 0 for p in range(1, np_ + 1)}
        susp = []
        s = []
        for _ in range(rng.randint(3, 3 * np_ * nc)):
            idle = [p for p in ncall if p not in susp and ncall[p] < nc]
            choices = []
            if idle:
                choices += ["call"] * 2
            if susp:
                choices += ["finish"]
                if len(susp) >= 2:
                    choices += ["finish_many"] * 2
            if not choices:
                break
            c = rng.choice(choices)
            if c == "call":
                p = rng.choice(idle)
                ncall[p] += 1
                susp.append(p)
                s.append(("call", p))
            else:
                k = 1 if c == "finish" else rng.randint(2, len(susp))
                ps = rng.sample(susp, k)
                bad = [p for p in ps if rng.random() < 0.2]
                for p in ps:
                    susp.remove(p)
                s.append(("finish", ps, bad))
        out.append(s)
    return out


def main():
    ap = argparse.ArgumentParser()
    ap.add_argument("--tier", default="quick")
    ap.add_argument("--seed", type=int, default=0)
    ap.add_argument("--out", required=True)
    ap.add_argument("--mutant", default=None)
    a = ap.parse_args()
    if a.mutant:
        import mutants
        mutants.apply(a.mutant)
    rng = random.Random(a.seed)
    runs = []
    # the canonical overlaps first: two / three emits in flight whose consumers finish in one callback, in both orders
    for np_ in (2, 3):
        for perm in itertools.permutations(range(1, np_ + 1)):
            for bad in ([], [perm[0]], [perm[-1]]):
                runs.append(run("direct", np_, 2, [("call", p) for p in range(1, np_ + 1)] + [("finish", list(perm), bad)]))
    # producer threads that run an event loop of their own: the blocking emit still blocks them
    for s in scripts(2, 2, rng, 15 if a.tier == "quick" else 150):
        runs.append(run("direct", 2, 2, s, looped=True))
    # a producer thread that, before its blocking emit, pushes an element through an asynchronous pipeline of its own -- which
    # may fail: the thread's flag is put back either way, and the blocking emit blocks
    for s in scripts(2, 2, rng, 12 if a.tier == "quick" else 120):
        s = [(o[0], o[1], rng.choice(["ok", "fail", "fail"])) if o[0] == "call" and rng.random() < 0.7 else o for o in s]
        runs.append(run("direct", 2, 2, s))
    n = 40 if a.tier == "quick" else 400
    for shape in ("direct", "map", "filter_map"):
        for np_ in (2, 3):
            for s in scripts(np_, 2, rng, n // 2 if shape != "direct" else n):
                runs.append(run(shape, np_, 2, s))
    # nested emits (forwarding sinks) inside the outer blocking emit; last, because a deadlocked loop thread takes the shared
    # background loop with it: stop at the first emit that never returns
    for s in scripts(2, 2, rng, 10 if a.tier == "quick" else 60):
        r = run("forward", 2, 2, s)
        runs.append(r)
        if any(e["ev"] == "Stuck" for e in r["ev"]):
            break
    for i, r in enumerate(runs, start=1):
        r["id"] = i
    os.makedirs(a.out, exist_ok=True)
    with open(os.path.join(a.out, "runs.json"), "w") as f:
        json.dump(runs, f, separators=(",", ":"))
    print(json.dumps({"runs": len(runs), "events": sum(len(r["ev"]) for r in runs)}))
    os._exit(0)


if __name__ == "__main__":
    main()
