"""Driver for ThreadLatest: source = Stream() (loop in streamz' background thread) -> latest() -> a consumer that can keep the
loop thread busy; the driver's own thread is the producer and pushes with source.emit(x, asynchronous=True), so that
latest.update runs in the producer thread.  All waits are event-gated (bounded above by a generous time-out that only a
lost wake-up can reach)."""
import argparse
import asyncio
import json
import logging
import os
import random
import sys
import threading
import time
import warnings

sys.path.insert(0, os.path.dirname(os.path.dirname(os.path.abspath(__file__))))
warnings.simplefilter("ignore")
logging.disable(logging.CRITICAL)

from streamz import Stream              # noqa: E402

GIVE_UP = 10.0     # seconds after which a push that has not come out is taken as never coming out
SETTLE = 0.03      # lets the loop thread run out of work and block in its selector


class World:
    def __init__(self):
        self.lock = threading.Lock()
        self.ev = []
        self.hold = False
        self.gate = threading.Event()
        self.inside = False
        self.arrived = 0
        self.last = 0
        world = self

        class Consumer(Stream):
            def update(self, x, who=None, metadata=None):
                with world.lock:
                    world.ev.append({"ev": "Deliver", "e": x})
                    world.last = x
                    world.inside = True
                    hold = world.hold
                if hold:
                    world.gate.wait(30)
                with world.lock:
                    world.inside = False
                    world.ev.append({"ev": "ConsumerDone"})
                return []
        self.src = Stream()
        self.node = self.src.latest()
        self.cons = Consumer(self.node)

    def log(self, **kw):
        with self.lock:
            self.ev.append(kw)

    def push(self):
        self.arrived += 1
        self.log(ev="PushCall")
        try:
            self.src.emit(self.arrived, asynchronous=True)
        except Exception as e:      # noqa
            self.log(ev="PushRaised", exc=type(e).__name__)
            return
        self.log(ev="PushRet")

    def settled(self):
        with self.lock:
            if self.hold and self.inside:
                return True
            return not self.inside and (self.arrived == 0 or self.last == self.arrived)

    def wait(self):
        t0 = time.time()
        while time.time() - t0 < GIVE_UP:
            if self.settled():
                time.sleep(SETTLE)
                return True
            time.sleep(0.002)
        self.gave_up = True
        self.log(ev="GaveUp", arrived=self.arrived, last=self.last)
        return False

    def op(self, c):
        if c == "p":
            self.push()
        elif c == "h":
            with self.lock:
                self.gate.clear()
                self.hold = True
        elif c == "r":
            with self.lock:
                self.hold = False
            self.gate.set()
        elif c == "w":
            self.wait()


def run(script):
    w = World()
    for c in script:
        w.op(c)
        if getattr(w, "gave_up", False):
            break       # (the verdict is in: the trace is rejected at the GaveUp event)
    w.op("r")
    if not getattr(w, "gave_up", False):
        w.wait()
    w.log(ev="End")
    # leave nothing behind on the shared background loop
    try:
        w.src.disconnect(w.node)
        w.node.destroy()
    except Exception:
        pass
    return {"script": "".join(script), "ev": w.ev, "ne": max(w.arrived, 1)}


def scripts(rng, count):
    out = ["pw", "pwpwpw", "hpwppprw", "pwhpwprwpw", "ppp", "hpwprpw", "pwwpwwhpwpprwwpw"]
    for _ in range(count):
        s, held, n = [], False, 0
        for _ in range(rng.randint(3, 12)):
            c = rng.choice("pppwwh" if not held else "pppwr")
            if c == "p":
                if n >= 6:
                    continue
                n += 1
            if c == "h":
                held = True
            if c == "r":
                held = False
            s.append(c)
        out.append("".join(s))
    return out


def main():
    ap = argparse.ArgumentParser()
    ap.add_argument("--tier", default="quick")
    ap.add_argument("--seed", type=int, default=0)
    ap.add_argument("--out", required=True)
    ap.add_argument("--mutant", default=None)
    a = ap.parse_args()
    if a.mutant:
        import mutants
        mutants.apply(a.mutant)
    # the producer thread is not the loop thread; the awaitable emit(..., asynchronous=True) hands back needs a loop to belong to
    asyncio.set_event_loop(asyncio.new_event_loop())
    rng = random.Random(a.seed)
    runs = []
    for s in scripts(rng, 40 if a.tier == "quick" else 400):
        runs.append(run(list(s)))
    for i, r in enumerate(runs, start=1):
        r["id"] = i
    os.makedirs(a.out, exist_ok=True)
    with open(os.path.join(a.out, "runs.json"), "w") as f:
        json.dump(runs, f, separators=(",", ":"))
    print(json.dumps({"runs": len(runs), "events": sum(len(r["ev"]) for r in runs)}))
    os._exit(0)


if __name__ == "__main__":
    main()
