"""Driver for Topology: graph editing (connect / disconnect / destroy / drop reference + gc) interleaved with
emissions on the real classes; projection of links, liveness and combiner state after every operation."""
import argparse
import asyncio
import gc
import json
import logging
import os
import random
import sys
import warnings
import weakref

sys.path.insert(0, os.path.dirname(os.path.dirname(os.path.abspath(__file__))))
warnings.simplefilter("ignore")
logging.disable(logging.CRITICAL)

import programs as P  # noqa: E402
import build as B     # noqa: E402

S = lambda: P.node("stream")


def graphs():
    G = []
    for kind, extra in (("zip", {}), ("combine_latest", {"b2": True, "eon": [1, 2]}), ("union", {})):
        p = [S(), S(), S(), P.node(kind, ups=[1, 2], **extra), P.node("sink", f="ok", ups=[4])]
        G.append(("three_src_" + kind, p))
    # a zip built with literal arguments: the literals keep their positions whatever is connected / disconnected later
    p = [S(), S(), S(), P.node("zip", ups=[1, 2], lits=[[1, ["i", 7]]]), P.node("sink", f="ok", ups=[4])]
    G.append(("three_src_zip_literal", p))
    # (a literal placed behind more inputs than remain makes pack_literals raise: positions are kept within reach)
    p = [S(), S(), P.node("map", f="inc", ups=[1]), P.node("sink", f="ok", ups=[3]), P.node("map", f="dbl", ups=[1]),
         P.node("sink", f="ok", ups=[1])]
    G.append(("branches", p))
    p = [S(), S(), P.node("zip", ups=[1, 2]), P.node("map", f="id", ups=[3]), P.node("sink", f="ok", ups=[4]),
         P.node("combine_latest", ups=[1, 2], b2=True, eon=[1, 2]), P.node("sink", f="ok", ups=[6])]
    G.append(("zip_and_combine", p))
    p = [S(), P.node("map", f="inc", ups=[1]), P.node("map", f="dbl", ups=[2]), P.node("sink", f="ok", ups=[3]),
         P.node("stream", ups=[]), P.node("union", ups=[2, 5]), P.node("sink", f="ok", ups=[6])]
    G.append(("chain_union", p))
    return G


class Live:
    """the 'program': names it still holds; everything else is observed through weak references"""

    def __init__(self, prog):
        built = B.build(prog, stream_kwargs={"asynchronous": True})
        self.prog = [dict(n) for n in prog]
        self.names = {i: built.nodes[i] for i in range(1, len(prog) + 1)}
        # what any program does with its nodes -- print them, hash them, compare them -- must not keep them alive
        for n_ in self.names.values():
            str(n_), repr(n_), hash(n_), n_ == n_, "%s" % (n_,)
            try:
                n_._repr_html_() if hasattr(n_, "_repr_html_") else None
            except Exception:
                pass
        self.weak = {i: weakref.ref(built.nodes[i]) for i in range(1, len(prog) + 1)}
        self.sink_out = built.sink_out
        built.nodes = None
        del built

    def node(self, i):
        return self.weak[i]()

    def alive(self):
        gc.collect()
        return sorted(i for i, w in self.weak.items() if w() is not None)

    def project(self):
        al = self.alive()
        downs, ups, nst, opq = [], [], [], []
        for i in range(1, len(self.prog) + 1):
            n = self.node(i)
            if n is None:
                downs.append([]); ups.append([]); nst.append([])
                continue
            downs.append([getattr(d, "_vid", -1) for d in list(n.downstreams)])
            ups.append([getattr(u, "_vid", -1) for u in n.upstreams])
            nd = dict(self.prog[i - 1]); nd["ups"] = ups[-1]
            try:
                nst.append(B.project_node(n, nd) if nd["kind"] in ("zip", "combine_latest") else [])
            except Exception:
                nst.append([])       # (private attributes in another shape than the known one: the state is not compared)
                opq.append(i)
            del n
        return {"alive": al, "downs": downs, "ups": ups, "nst": nst, "opq": opq}


def enabled_ops(lv, model):
    """the operations the specification's guards allow in the modelled state (model: dict with ups, downs, held)"""
    ops = []
    n = len(lv.prog)
    kinds = [nd["kind"] for nd in lv.prog]
    held = model["held"]
    for e in range(1, n + 1):
        if kinds[e - 1] == "stream" and not model["ups"][e] and e in model["alive"]:
            for v in (0, 1, 2):
                ops.append(("emit", e, v))
    for u in held:
        for d in held:
            if u == d:
                continue
            if u in model["ups"][d]:
                ops.append(("disconnect", u, d))
                if kinds[d - 1] != "sink":
                    ops.append(("destroy_from", d, u))
            elif kinds[d - 1] in ("zip", "combine_latest", "union") or (kinds[d - 1] in ("sink", "map", "stream") and not model["ups"][d]):
                if d not in reach_up(model, u) and kinds[u - 1] != "sink":
                    ops.append(("connect", u, d))
    for x in held:
        if model["ups"][x] and kinds[x - 1] in ("sink", "map", "stream", "union", "zip", "combine_latest"):
            ops.append(("destroy", x, 0))
        if model["ups"][x] and kinds[x - 1] != "sink":
            ops.append(("destroy_none", x, 0))
        if not (kinds[x - 1] == "stream" and not model["ups"][x]):
            ops.append(("dropref", x, 0))
    return ops


def reach_up(model, u):
    seen, todo = set(), [u]
    while todo:
        x = todo.pop()
        for y in model["ups"].get(x, []):
            if y not in seen:
                seen.add(y)
                todo.append(y)
    return seen | {u}


def run_trace(name, prog, rng, nops):
    B.Obs.reset()
    lv = Live(prog)
    model = {"ups": {i: list(nd["ups"]) for i, nd in enumerate(prog, start=1)}, "held": set(range(1, len(prog) + 1)),
             "alive": set(range(1, len(prog) + 1))}
    ev = []
    B.Obs.enabled = True
    edits = 0
    try:
        for k in range(nops):
            ops = enabled_ops(lv, model)
            if edits >= 5:
                ops = [o for o in ops if o[0] == "emit"]
            if not ops:
                break
            # bias towards edits early and emissions in between
            w = [3 if o[0] == "emit" else 4 for o in ops]
            op = rng.choices(ops, weights=[wi / sum(1 for o in ops if (o[0] == "emit") == (op0[0] == "emit")) for wi, op0 in zip(w, ops)])[0]
            kind, a, b = op
            d0 = len(B.Obs.dlog)
            raised = False
            rec = {"ev": kind, "a": a, "b": b}
            try:
                if kind == "emit":
                    B.Obs.callno = k + 1
                    B.Plan.reset(())
                    rec["x"] = ["i", b]
                    fut = lv.node(a).emit(b)
                elif kind == "connect":
                    lv.node(a).connect(lv.node(b))
                    model["ups"][b].append(a)
                elif kind == "disconnect":
                    lv.node(a).disconnect(lv.node(b))
                    model["ups"][b].remove(a)
                elif kind == "destroy":
                    lv.node(a).destroy()
                    model["ups"][a] = []
                elif kind == "destroy_from":
                    lv.node(a).destroy(streams=[lv.node(b)])
                    model["ups"][a].remove(b)
                elif kind == "destroy_none":
                    # an empty selection (e.g. node.destroy([u for u in node.upstreams if retired(u)]) when nothing matches)
                    lv.node(a).destroy(streams=[] if k % 2 else ())
                elif kind == "dropref":
                    del lv.names[a]
                    model["held"].discard(a)
            except Exception as e:
                raised = True
                rec["exc"] = repr(e)[:120]
            if kind != "emit":
                edits += 1
            rec["raised"] = raised
            rec["dlog"] = [d[:4] for d in B.Obs.dlog[d0:]]
            rec.update(lv.project())
            model["alive"] = set(rec["alive"])
            rec["sinks"] = [[i, [B.enc(x) for x in out]] for i, out in sorted(lv.sink_out.items())]
            ev.append(rec)
            if raised:
                break
    finally:
        B.Obs.enabled = False
        from streamz import sinks as ssinks
        for i in list(lv.weak):
            n = lv.node(i)
            if n is not None:
                ssinks._global_sinks.discard(n)
        lv.names.clear()
    return {"name": name, "prog": P.prog_json(prog), "ev": ev}


def main():
    ap = argparse.ArgumentParser()
    ap.add_argument("--tier", default="quick")
    ap.add_argument("--seed", type=int, default=0)
    ap.add_argument("--out", required=True)
    ap.add_argument("--mutant", default=None)
    a = ap.parse_args()
    rng = random.Random(a.seed)
    loop = asyncio.new_event_loop()
    asyncio.set_event_loop(loop)
    if a.mutant:
        import mutants
        mutants.apply(a.mutant)
    B.install_probes()
    # everything imported so far goes to the permanent generation: the per-operation gc.collect() stays cheap
    gc.collect()
    gc.freeze()
    traces = []
    per = 150 if a.tier == "quick" else 1500
    nev = 0
    for name, prog in graphs():
        for _ in range(per):
            t = run_trace(name, prog, rng, rng.randint(4, 9))
            t["id"] = len(traces) + 1
            nev += len(t["ev"])
            # keep results as strings: containers kept alive would make every gc.collect() slower
            traces.append(json.dumps(t, separators=(",", ":")))
            del t
    os.makedirs(a.out, exist_ok=True)
    with open(os.path.join(a.out, "runs.json"), "w") as f:
        f.write("[" + ",".join(traces) + "]")
    print(json.dumps({"runs": len(traces), "events": nev}))


if __name__ == "__main__":
    main()
