"""Engine 'abuffer': AsyncBuffer.tla (buffer(n) / delay) -- exhaustive TLC over all interleavings of
producers, the forwarding coroutine and the consumer; traces of the real node validated against it."""
import os
import shutil
import sys

sys.path.insert(0, os.path.dirname(os.path.dirname(os.path.abspath(__file__))))
import core   # noqa: E402
import amod   # noqa: E402

INVS = ["TypeOK", "Lossless", "Conservation", "Bound", "ParkedNotDone", "NoStuckEmit", "CbSafe", "FailedNeverSignalled", "RcBalance"]
INV_PROP = {"Lossless": "C02", "Conservation": "C02", "Bound": "C03", "ParkedNotDone": "C03", "NoStuckEmit": "C03",
            "EmitsComplete": "C03", "AllDelivered": "C02", "CbSafe": "C04", "FailedNeverSignalled": "C04", "RcBalance": "C05", "NoResurrection": "C05",
            "TypeOK": "C02"}


def adapt(run):
    """event log of one real run -> AsyncBuffer trace events"""
    kind = run["cfg"]["kind"]
    sync = run["cfg"]["cons"][0] == "sync"
    out = []
    for ev in run["ev"]:
        k = ev["ev"]
        if k == "emit_call":
            out.append({"ev": "Put", "e": ev["e"]})
        elif k == "emit_done":
            out.append({"ev": "EmitDone", "e": ev["e"]})
        elif k == "emit_raised":
            out.append({"ev": "EmitRaised", "e": ev["e"]})
        elif k == "deliver":
            out.append({"ev": "CbEmit", "e": ev["x"][0] if len(ev["x"]) == 1 else -1, "md": ev["md"]})
        elif k == "cons_done" and not sync:
            out.append({"ev": "ConsumerDone"})
        elif k == "cons_fail":
            out.append({"ev": "ConsumerFail"})
        elif k == "release" and ev["site"].endswith(".cb"):
            out.append({"ev": "CbRelease", "e": ev["tag"], "count": ev["count"], "fired": bool(ev["fired"])})
        elif k == "release" and ev["fired"]:
            # a completion callback fired somewhere else than in the forwarding coroutine
            out.append({"ev": "FiredElsewhere", "e": ev["tag"], "site": ev["site"]})
        elif k == "time":
            out.append({"ev": "Advance", "now": int(ev["now"]) if float(ev["now"]).is_integer() else -1})
        elif k == "end":
            out.append({"ev": "End", "quiescent": bool(ev["quiescent"])})
        if "obs" in ev and k != "end":
            o = ev["obs"]
            if "q" in o and "putters" in o and "getters" in o:      # (private state: compared only if readable)
                out.append({"ev": "ObsQ", "q": o["q"], "putters": o["putters"], "getters": o["getters"]})
            out.append({"ev": "ObsRc", "rc": o["rc"]})
    return out


def attribute(run, trace, idx):
    """which property does the first unmatched event speak about?"""
    if idx > len(trace):
        return "C02", "end"
    ev = trace[idx - 1]
    k = ev["ev"]
    if k == "CbEmit" and ev.get("md") != [ev.get("e")]:
        return "C10", "element %s was delivered with metadata %s instead of its own" % (ev.get("e"), ev.get("md"))
    if k == "CbEmit":
        return "C02", "delivery %s not allowed by the specification here (order / duplication / taken too early)" % ev.get("e")
    if k in ("EmitDone", "EmitRaised", "ObsQ", "Put"):
        return "C03", "%s does not match the specification (queue bound / emit completion)" % k
    if k in ("CbRelease", "FiredElsewhere"):
        # premature (C04) iff the element's consumer had not finished when the release happened
        e = ev.get("e")
        delivered = done = False
        for x in trace[:idx - 1]:
            if x["ev"] == "CbEmit" and x.get("e") == e:
                delivered = True
            if x["ev"] == "ConsumerDone" and delivered:
                done = True
        sync = run["cfg"]["cons"][0] == "sync"
        if ev.get("fired") or k == "FiredElsewhere":
            if not delivered or not (done or sync):
                return "C04", "completion callback of element %s fired before its consumer finished (%s)" % (e, k)
        return "C05", "release of element %s does not match the specification (%s)" % (e, k)
    if k == "ObsRc":
        return "C05", "reference counts differ from the specification"
    if k == "End":
        return "C02", "run is not quiescent / incomplete at the end"
    return "C02", k


def configs(tier):
    cfgs = []
    for n in ((1, 2) if tier == "quick" else (1, 2, 3)):
        for cons in ("future", "coro", "sync"):
            cfgs.append({"kind": "buffer", "n": n, "cons": [cons], "max_elems": 4 if tier == "quick" else 5})
        # the consumer's awaitable may raise (once per run)
        cfgs.append({"kind": "buffer", "n": n, "cons": ["future"], "max_elems": 4 if tier == "quick" else 5, "faults": True})
    # delay(interval): the same forwarding coroutine over an unbounded queue, pacing its emissions
    for cons in ("future", "sync"):
        cfgs.append({"kind": "delay", "interval": 2, "cons": [cons], "max_elems": 4 if tier == "quick" else 5, "idle_wait": True})
    # the library's own sink behind the buffer, around a function that hands back a bare awaitable (an object with __await__)
    cfgs.append({"kind": "buffer", "n": 2, "cons": ["sinkfn_handle"], "max_elems": 4 if tier == "quick" else 5})
    # the interval as a pandas-style string (fractional / compound: convert_interval)
    for iv in ("2.0s", "0.05min"):
        cfgs.append({"kind": "delay", "interval": iv, "cons": ["future"], "max_elems": 3, "idle_wait": True})
    # callbacks one at a time: emissions and consumer completions fall between two callbacks of one loop iteration
    cfgs.append({"kind": "buffer", "n": 1, "cons": ["future"], "max_elems": 4 if tier == "quick" else 5, "fine": True})
    # a caller that does not wait for what emit / update hands back
    cfgs.append({"kind": "buffer", "n": 2, "cons": ["future"], "max_elems": 4 if tier == "quick" else 5, "feeder": "plain"})
    cfgs.append({"kind": "delay", "interval": 2, "cons": ["future"], "max_elems": 4 if tier == "quick" else 5, "idle_wait": True, "feeder": "plain"})
    # falsy payloads (None, 0) are elements like any other
    cfgs.append({"kind": "buffer", "n": 1, "cons": ["future"], "max_elems": 4 if tier == "quick" else 5, "falsy": {"none": 2, "zero": 3}})
    return cfgs


def consts_of(cfg):
    return dict(NE=cfg["max_elems"], N=cfg.get("n", 0), SyncCons=cfg["cons"][0] == "sync",
                Interval=amod.seconds(cfg.get("interval", 0)), MaxOut=cfg["max_elems"], MaxTime=100000 if cfg.get("interval") else 0, Faults=bool(cfg.get("faults")))


def run(tier, seed, mutant=None, only_validate=False):
    work = os.path.join(core.WORK, "abuffer_%s_%d" % (tier, os.getpid()))
    os.makedirs(work, exist_ok=True)
    res = core.EngineResult("abuffer")
    try:
        if not only_validate:
            ne = 4 if tier == "quick" else 5
            for n in ((1, 2) if tier == "quick" else (1, 2, 3)):
                for sync in (False, True):
                    for maxout in ((1, ne) if tier == "quick" else (1, 2, ne)):
                        r, rec = amod.mc(res, work, "AsyncBuffer", "n%d_sync%d_out%d" % (n, sync, maxout),
                                         dict(NE=ne, N=n, SyncCons=sync, Interval=0, MaxOut=maxout, MaxTime=0, Faults=not sync),
                                         INVS, ["NoResurrection", "EmitsComplete", "AllDelivered"], spec="FairSpec")
                        if not r.ok and not amod.incomplete(r, rec):
                            res.violations.append(dict(property=INV_PROP.get(r.violated or "", "C02"), engine="abuffer",
                                                       clause=r.violated or "tlc-error",
                                                       what="AsyncBuffer.tla violates %s for %s" % (r.violated, rec["constants"]),
                                                       signature=dict(kind="spec", clause=r.violated or "error", node="buffer")))
        cfgs = configs(tier)
        runs = amod.drive(work, cfgs, seed, depth=7 if tier == "quick" else 9, limit=250 if tier == "quick" else 3000,
                          nrandom=150 if tier == "quick" else 1500, mutant=mutant)
        groups = {}
        traces = {}
        for i, r in enumerate(runs, start=1):
            t = adapt(r)
            if r["cfg"].get("feeder") == "plain":
                t = [e for e in t if e["ev"] not in ("EmitDone", "EmitRaised")]
            key = str(sorted(r["cfg"].items()))
            groups.setdefault(key, (r["cfg"], []))[1].append({"id": i, "ev": t})
            traces[i] = (r, t)
        glist = [("buffer n=%s %s%s" % (c.get("n"), c["cons"][0], " faults" if c.get("faults") else ""), consts_of(c), ts) for c, ts in groups.values()]
        reached, problems = amod.validate_groups(work, "AsyncBufferTrace", glist)
        nredo = amod.second_pass(work, "AsyncBufferTrace", consts_of, traces, reached, dict(getattr(amod.validate_groups, "unsafe", {})),
                                 dict(getattr(amod.validate_groups, "over", {})), group_key=lambda c: str(sorted(c.items())))
        if nredo:
            res.notes.append("%d traces were rejected at an observation of private state and validated again on behaviour alone" % nredo)
        res.traces = len(runs)
        res.evaluations = sum(len(t[1]) for t in traces.values())
        for name, kind, detail in problems:
            if kind == "error":
                raise core.MachineryError("AsyncBufferTrace failed on %s: %s" % (name, detail[:600]))
            inv = kind.split()[-1]
            res.violations.append(dict(property="C02", engine="abuffer", clause=inv,
                                       what="a recorded run of the real buffer node violates %s (%s)" % (inv, name),
                                       detail=detail, signature=dict(kind="trace-invariant", clause=inv, node="buffer")))
        nontriv = set()
        for i, (r, t) in traces.items():
            got = reached.get(i)
            if got is None:
                continue           # its group stopped on an invariant violation (reported above)
            if got[0] >= got[1]:
                res.accepted += 1
                sched = " ".join(r["schedule"])
                if any(x["ev"] == "ObsQ" and x["putters"] > 0 for x in t):
                    nontriv.add(sched + str(r["cfg"]))
            else:
                prop, why = attribute(r, t, got[0])
                also = ["C05"] if prop == "C04" else []
                if r["cfg"]["kind"] == "delay" and prop == "C02":
                    also.append("C13")          # delay preserves order and count (C13) as well
                for x in amod.symptoms(r):
                    if x != prop and x not in also:
                        also.append(x)
                if prop not in ("C05", "C04") and amod.leaked(r):
                    also.append("C05")
                    why += "; at the end the counters of elements %s are not zero although nothing holds them" % amod.leaked(r)
                res.violations.append(dict(
                    property=prop, also=also, engine="abuffer",
                    clause=t[got[0] - 1]["ev"] if got[0] <= len(t) else "end",
                    what="buffer(%s) consumer=%s schedule '%s': event #%d %s -- %s" % (
                        r["cfg"].get("n"), r["cfg"]["cons"][0], " ".join(r["schedule"]), got[0],
                        t[got[0] - 1] if got[0] <= len(t) else "", why),
                    signature=dict(kind="trace", node=r["cfg"]["kind"], event=t[got[0] - 1]["ev"] if got[0] <= len(t) else "end"),
                    replay=dict(engine="abuffer", cfg=r["cfg"], schedule=r["schedule"], at=got[0], trace=t[:got[0] + 2])))
        res.nontrivial = len(nontriv)
        res.rule = ("abuffer: buffer(n) for n in 1..3 x consumer style (Future / native coroutine / synchronous) x all schedules "
                    "of depth <= 7/9 over {emit, finish consumer, run one loop iteration} + random longer schedules, each followed "
                    "by a drain; non-trivial = some emit was parked on the full queue; distinct by (configuration, schedule)")
        for r in runs[:2]:
            res.samples.append(dict(cfg=r["cfg"], schedule=" ".join(r["schedule"]),
                                    events=[e["ev"] + (":" + str(e.get("e", e.get("x", ""))) if e["ev"] in ("emit_call", "deliver", "emit_done") else "")
                                            for e in r["ev"]][:40]))
    finally:
        shutil.rmtree(work, ignore_errors=True)
    return res


def canaries(tier, seed):
    out = []
    r = run("quick", seed, mutant="buffer_release_early", only_validate=True)
    out.append(dict(name="mutant:buffer_release_early", detected=bool(r.violations), rejected=len(r.violations)))
    return out


TRACE_MODULE = "AsyncBufferTrace"


def replay(v):
    import sys as _s
    return amod.replay_node(_s.modules[__name__], v)
