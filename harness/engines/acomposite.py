"""Engine 'acomposite': Observer.tla -- composite pipelines (asynchronous nodes among synchronous ones) monitored at
property level against their synchronous twin (C02, C04, C05)."""
import json
import os
import re
import shutil
import sys

sys.path.insert(0, os.path.dirname(os.path.dirname(os.path.abspath(__file__))))
import core   # noqa: E402
import amod   # noqa: E402
import tlc    # noqa: E402

RE_BROKEN = re.compile(r'<<"BROKEN", (\d+), (\d+), "(\w+)">>')
INV_PROP = {"OnlyExpected": "C02", "NoDuplicate": "C02", "InOrder": "C02", "CbSafe": "C04", "RaisedNeverFires": "C04", "FiredOnce": "C05"}


def validate(work, traces):
    d = os.path.join(work, "tv_observer")
    os.makedirs(d, exist_ok=True)
    shards = [traces[k::8] for k in range(8)]
    out = {}
    broken = {}
    import concurrent.futures as cf

    def one(k):
        if not shards[k]:
            return None
        tf = os.path.join(d, "s%d.json" % k)
        with open(tf, "w") as f:
            json.dump(shards[k], f, separators=(",", ":"))
        cfg = os.path.join(d, "s%d.cfg" % k)
        with open(cfg, "w") as f:
            f.write("SPECIFICATION TraceSpec\nCONSTANTS\n  Scenarios <- NoScenarios\nPOSTCONDITION Report\nCHECK_DEADLOCK FALSE\n")
        return tlc.run(os.path.join(tlc.SPECS, "ObserverTrace.tla"), cfg, d, workers=1, timeout=1200, env_extra={"TRACE_FILE": tf}, heap="3g")
    with cf.ThreadPoolExecutor(8) as ex:
        for r in ex.map(one, range(8)):
            if r is None:
                continue
            if r.error and "REACHED" not in r.out:
                raise core.MachineryError("ObserverTrace failed: " + r.error[:800])
            for a, b, c in amod.RE_REACHED.findall(r.out):
                out[int(a)] = (int(b), int(c))
            for a, b, c in RE_BROKEN.findall(r.out):
                broken[int(a)] = (int(b), c)
    shutil.rmtree(d, ignore_errors=True)
    return out, broken


def mc(res, work):
    """the monitor itself: a tiny exhaustive run showing that every invariant is falsifiable and that a correct
    sequence satisfies them (guards the trace verdicts against vacuity)"""
    d = os.path.join(work, "mc_observer")
    os.makedirs(d, exist_ok=True)
    mod = os.path.join(d, "MC.tla")
    with open(mod, "w") as f:
        f.write("---- MODULE MC ----\nEXTENDS Observer\nScen == {[ne |-> 2, nd |-> 2, lineage |-> <<{1}, {1, 2}>>, held |-> {2}, ordered |-> TRUE, sink |-> <<1, 1>>]}\n"
                "Small == Len(delivered) <= 2 /\\ Len(fired) <= 2\n====\n")
    for inv in ("NoDuplicate", "InOrder", "CbSafe", "RaisedNeverFires", "FiredOnce"):
        cfg = os.path.join(d, "MC_%s.cfg" % inv)
        with open(cfg, "w") as f:
            f.write("SPECIFICATION Spec\nCONSTANTS\n  Scenarios <- Scen\nINVARIANT %s\nCONSTRAINT Small\nCHECK_DEADLOCK FALSE\n" % inv)
        r = tlc.run(mod, cfg, d, workers=4, timeout=300)
        rec = dict(name="Observer/falsifiable_" + inv, states=r.distinct, transitions=r.generated, ok=(r.violated == inv),
                   violated=r.violated, wall_s=round(r.wall, 1), expected_violation=inv)
        res.tlc_runs.append(rec)
        if r.violated != inv:
            raise core.MachineryError("Observer monitor: invariant %s is not falsifiable in the unguarded model" % inv)
    shutil.rmtree(d, ignore_errors=True)


def run(tier, seed, mutant=None, only_validate=False):
    work = os.path.join(core.WORK, "acomposite_%s_%d" % (tier, os.getpid()))
    os.makedirs(work, exist_ok=True)
    res = core.EngineResult("acomposite")
    try:
        if not only_validate:
            mc(res, work)
        out = os.path.join(work, "runs")
        args = ["--tier", tier, "--seed", seed, "--out", out]
        if mutant:
            args += ["--mutant", mutant]
        rc, so, se = core.run_driver("composite_driver.py", args, timeout=3000)
        if rc != 0:
            raise core.MachineryError("composite driver failed: " + se[-1500:])
        with open(os.path.join(out, "runs.json")) as f:
            runs = json.load(f)
        traces = [{k: r[k] for k in ("id", "ne", "nd", "lineage", "held", "ordered", "ev", "sink") if k in r} for r in runs]
        reached, broken = validate(work, traces)
        res.traces = len(runs)
        res.evaluations = sum(len(r["ev"]) for r in runs)
        nt = set()
        for r in runs:
            got = reached.get(r["id"])
            if got is None:
                continue
            if got[0] >= got[1]:
                res.accepted += 1
                if r["nd"] >= 2 and any(c in r["schedule"] for c in "dD"):
                    nt.add(r["pipe"] + r["cons"] + r["schedule"])
                continue
            if r["id"] in broken:
                at, inv = broken[r["id"]]
                prop = INV_PROP.get(inv, "C02")
                why = "after event #%d %s the monitor's invariant %s is false" % (at, r["ev"][at - 1] if 0 < at <= len(r["ev"]) else "", inv)
                kind = "premature-callback" if inv == "CbSafe" else "callback-after-raise" if inv == "RaisedNeverFires" else "monitor"
                role = ""
                if inv == "CbSafe" and 0 < at <= len(r["ev"]) and r["ev"][at - 1]["ev"] == "Fire":
                    # which element of the value being consumed had its callback fired
                    el = r["ev"][at - 1]["e"]
                    done = {x["k"] for x in r["ev"][:at] if x["ev"] == "Consume"}
                    open_ = [x["k"] for x in r["ev"][:at] if x["ev"] == "Deliver" and x["k"] not in done and 0 < x["k"] <= r["nd"]
                             and el in r["lineage"][x["k"] - 1]]
                    lin = sorted(r["lineage"][open_[0] - 1]) if open_ else []
                    role = "only" if len(lin) == 1 else "oldest" if lin and el == lin[0] else "newest" if lin and el == lin[-1] else "middle"
            else:
                e = r["ev"][got[0] - 1]
                inv = "Complete" if e["ev"] == "End" else e["ev"]
                delivered = sorted(x["k"] for x in r["ev"] if x["ev"] == "Deliver")
                fired = sorted(x["e"] for x in r["ev"] if x["ev"] == "Fire")
                if delivered != list(range(1, r["nd"] + 1)):
                    prop, why = "C02", "at the end the sink has received deliveries %s of the %d expected ones" % (delivered, r["nd"])
                else:
                    prop = "C05"
                    why = "at the end the completion callbacks of elements %s have fired; expected all of 1..%d except the held %s" % (
                        fired, r["ne"], r["held"])
                kind = "monitor"
                role = ""
            res.violations.append(dict(
                property=prop, also=["C05"] if prop == "C04" and kind != "premature-callback" else [], engine="acomposite", clause=inv,
                what="pipeline %s, consumer %s, schedule '%s': %s (expected sink values %s)" % (r["pipe"], r["cons"], r["schedule"], why,
                                                                                             r["expected"]),
                signature=dict(kind=kind, pipe=r["pipe"], clause=inv, cons="async" if r["cons"] != "sync" else "sync", element=role),
                replay=dict(engine="acomposite", pipe=r["pipe"], cons=r["cons"], schedule=r["schedule"], ne=r["ne"], ev=r["ev"])))
        res.nontrivial = len(nt)
        res.rule = ("acomposite: 13 pipelines mixing buffer / delay / rate_limit / map_async with partition, sliding_window, unique, filter, "
                    "flatten, accumulate, zip, combine_latest, slice x consumer style x random schedules over {emit, loop iteration, finish "
                    "oldest / newest consumer, fail a consumer, finish function, advance clock}; expected values, lineage and held elements come from the "
                    "synchronous twin; non-trivial = >= 2 expected deliveries and a consumer completion chosen by the driver")
        for r in runs[:2]:
            res.samples.append({k: r[k] for k in ("pipe", "cons", "schedule", "expected", "lineage", "held", "ev")})
    finally:
        shutil.rmtree(work, ignore_errors=True)
    return res
