"""Engine 'adask': DaskFlow.tla -- scatter() ... gather() segments on an in-process dask cluster (C20)."""
import json
import os
import shutil
import sys

sys.path.insert(0, os.path.dirname(os.path.dirname(os.path.abspath(__file__))))
import core   # noqa: E402
import amod   # noqa: E402

INVS = ["ExactlyOnce", "Lossless", "SameOrder", "CallOrder", "CbSafe", "RcBalance"]


def run(tier, seed, mutant=None, only_validate=False):
    work = os.path.join(core.WORK, "adask_%s_%d" % (tier, os.getpid()))
    os.makedirs(work, exist_ok=True)
    res = core.EngineResult("adask")
    try:
        if not only_validate:
            ne = 3 if tier == "quick" else 4
            for aw, bf in ((True, False), (True, True)):
                for sync in (False, True):
                    r, rec = amod.mc(res, work, "DaskFlow", "await%d_buffered%d_sync%d" % (aw, bf, sync),
                                     dict(NE=ne, Await=aw, Buffered=bf, SyncCons=sync, Turn=True, Faults=not bf, EarlyTurn=False), INVS, ["AllDelivered"], spec="FairSpec",
                                     coverage=False)
                    amod.spec_violation(res, r, rec, {}, "C20", "dask")
            # a producer that does not await its emits: everything but the order holds; the loss of order is exhibited
            for bf in (False, True):
                r, rec = amod.mc(res, work, "DaskFlow", "fire_and_forget_buffered%d" % bf, dict(NE=ne, Await=False, Buffered=bf, SyncCons=False, Turn=True, Faults=not bf, EarlyTurn=False),
                                 [i for i in INVS if i != "SameOrder"], ["AllDelivered"], spec="FairSpec", coverage=False)
                amod.spec_violation(res, r, rec, {}, "C20", "dask")
            r, rec = amod.mc(res, work, "DaskFlow", "fire_and_forget_order", dict(NE=3, Await=False, Buffered=False, SyncCons=False, Turn=True, Faults=False, EarlyTurn=False),
                             ["SameOrder"], coverage=False)
            rec["expected_violation"] = "SameOrder"
            rec["ok"] = r.violated == "SameOrder"
            if r.violated != "SameOrder":
                raise core.MachineryError("expected counter-example to SameOrder (unordered concurrent scatter calls) not found")
            # sensitivity: gather as in the pinned tree (no turns, finding F22) loses the call order
            r, rec = amod.mc(res, work, "DaskFlow", "legacy_no_turn", dict(NE=3, Await=False, Buffered=False, SyncCons=False, Turn=False, Faults=False, EarlyTurn=False),
                             ["CallOrder"], coverage=False)
            rec["expected_violation"] = "CallOrder"
            rec["ok"] = r.violated == "CallOrder"
            if r.violated != "CallOrder":
                raise core.MachineryError("sensitivity: DaskFlow without gather turns must violate CallOrder")
            # sensitivity: a failed call that passes its turn on at once lets a later result overtake an earlier one
            r, rec = amod.mc(res, work, "DaskFlow", "early_turn_on_failure",
                             dict(NE=3, Await=False, Buffered=False, SyncCons=False, Turn=True, Faults=True, EarlyTurn=True), ["CallOrder"], coverage=False)
            rec["expected_violation"] = "CallOrder"
            rec["ok"] = r.violated == "CallOrder"
            if r.violated != "CallOrder":
                raise core.MachineryError("sensitivity: passing the turn early on failure must violate CallOrder")
        out = os.path.join(work, "runs")
        args = ["--tier", tier, "--seed", seed, "--out", out]
        if mutant:
            args += ["--mutant", mutant]
        rc, so, se = core.run_driver("dask_driver.py", args, timeout=3000)
        if rc != 0:
            raise core.MachineryError("dask driver failed: " + se[-1500:])
        with open(os.path.join(out, "runs.json")) as f:
            runs = json.load(f)
        groups = {}
        for r in runs:
            c = r["cfg"]
            key = (c["n"], c["await"], c["shape"] in ("map_buffer",), c["cons"] == "sync", bool(c.get("fail")))
            groups.setdefault(key, []).append({"id": r["id"], "ev": r["ev"]})
        glist = [("dask n=%s await=%s buffered=%s sync=%s faults=%s" % k,
                  dict(NE=k[0], Await=k[1], Buffered=k[2], SyncCons=k[3], Turn=True, Faults=k[4], EarlyTurn=False), ts)
                 for k, ts in groups.items()]
        reached, problems = amod.validate_groups(work, "DaskFlowTrace", glist, timeout=1800)
        unsafe = getattr(amod.validate_groups, "unsafe", {})
        res.traces = len(runs)
        res.evaluations = sum(len(r["ev"]) for r in runs)
        for name, kind, detail in problems:
            if kind == "error":
                raise core.MachineryError("DaskFlowTrace failed on %s: %s" % (name, detail[:800]))
            inv = kind.split()[-1]
            res.violations.append(dict(property="C20", also={"CbSafe": ["C04", "C05"], "RcBalance": ["C05"]}.get(inv, []),
                                       engine="adask", clause=inv,
                                       what="a recorded run of a real dask pipeline violates %s (%s)" % (inv, name),
                                       detail=detail, signature=dict(kind="trace-invariant", clause=inv)))
        nt = set()
        for r in runs:
            got = reached.get(r["id"])
            if got is None:
                continue
            c = r["cfg"]
            for lidx in sorted(unsafe.get(r["id"], ())):
                # (a producer that does not await its emits leaves the order of its concurrent scatter.update calls open:
                # for such runs only gather's call order -- CallOrder, part of TraceInv -- is demanded)
                if (lidx < got[0] or got[0] >= got[1]) and c["await"]:
                    serialised = c["await"]
                    res.violations.append(dict(
                        property="C20", engine="adask", clause="SameOrder",
                        what="dask %s, tasks finished in order %s: results were delivered as elements %s, the local pipeline delivers them "
                             "in emission order" % (json.dumps(c, sort_keys=True), r["order"], r["delivered"]),
                        signature=dict(kind="dask-order", producer="awaits" if c["await"] else "fire-and-forget",
                                       serialised=bool(serialised)),
                        replay=dict(engine="adask", cfg=c, order=r["order"], delivered=r["delivered"])))
            if got[0] >= got[1]:
                res.accepted += 1
                if r["order"] != sorted(r["order"]) or c["await"]:
                    nt.add(json.dumps([c, r["order"]]))
            else:
                e = r["ev"][got[0] - 1]
                # the reference counters of a Dask segment are "balanced in the same way" as the local pipeline's (C20); a callback
                # that fires somewhere else than at the segment's last release, or a release with another count, is also a
                # checkpoint-safety / balance problem of scatter / gather themselves (C04 / C05)
                also = []
                if e["ev"] == "FiredElsewhere" or (e["ev"] == "Release" and e.get("fired")):
                    also = ["C04", "C05"]
                elif e["ev"] == "Release":
                    also = ["C05"]
                res.violations.append(dict(
                    property="C20", also=also, engine="adask", clause=e["ev"],
                    what="dask %s, tasks finished in order %s: event #%d %s is not what DaskFlow allows (delivered %s)"
                         % (json.dumps(c, sort_keys=True), r["order"], got[0], e, r["delivered"]),
                    signature=dict(kind="trace", event=e["ev"], shape=c["shape"]),
                    replay=dict(engine="adask", cfg=c, order=r["order"], at=got[0], trace=r["ev"][:got[0] + 1])))
        observer(res, work, out, nt)
        res.nontrivial = len(nt)
        res.rule = ("adask: scatter -> {map, map+buffer, map.map, accumulate, starmap} -> gather on an in-process distributed cluster x producer "
                    "{awaits every emit, fire-and-forget} x consumer {Future, synchronous} x task completion orders forced with gates; sink "
                    "values are mapped to element ids through the local pipeline's results; non-trivial = completion order differs from "
                    "emission order, or an awaiting producer")
        for r in runs[:2]:
            res.samples.append(dict(cfg=r["cfg"], order=r["order"], delivered=r["delivered"], events=r["ev"][:10]))
    finally:
        shutil.rmtree(work, ignore_errors=True)
    return res


def observer(res, work, out, nt):
    """segments whose results combine several elements (sliding_window, partition, zip of two sources, union) are judged
    by Observer.tla against their local twin: values, order (serialised producers), callbacks never early / at most once,
    the same elements signalled at the end"""
    import acomposite
    with open(os.path.join(out, "obs.json")) as f:
        obs = json.load(f)
    traces = [{k: r[k] for k in ("id", "ne", "nd", "lineage", "held", "ordered", "ev")} for r in obs]
    reached, broken = acomposite.validate(work, traces)
    res.traces += len(obs)
    res.evaluations += sum(len(r["ev"]) for r in obs)
    for r in obs:
        got = reached.get(r["id"])
        if got is None:
            continue
        c = r["cfg"]
        if got[0] >= got[1]:
            res.accepted += 1
            nt.add(json.dumps([c, r["order"]]))
            continue
        if r["id"] in broken:
            at, inv = broken[r["id"]]
            why = "after event #%d %s the monitor's invariant %s is false" % (at, r["ev"][at - 1] if 0 < at <= len(r["ev"]) else "", inv)
        else:
            inv = "Complete"
            why = ("at the end: deliveries %s of %d expected, callbacks fired for %s, expected all of 1..%d except the held %s"
                   % (sorted(x["k"] for x in r["ev"] if x["ev"] == "Deliver"), r["nd"],
                      sorted(x["e"] for x in r["ev"] if x["ev"] == "Fire"), r["ne"], r["held"]))
        sig = dict(kind="dask-order", shape=c["shape"], producer="awaits" if c["await"] else "fire-and-forget") if inv == "InOrder" \
            else dict(kind="dask-observer", shape=c["shape"], clause=inv)
        res.violations.append(dict(
            property="C20", also={"CbSafe": ["C04"], "RaisedNeverFires": ["C04"], "FiredOnce": ["C05"]}.get(inv, []), engine="adask", clause=inv,
            what="dask %s, tasks finished in order %s: %s (the local pipeline delivers %s)" % (json.dumps(c, sort_keys=True), r["order"], why,
                                                                                             r["expected"]),
            signature=sig, replay=dict(engine="adask", cfg=c, order=r["order"], ev=r["ev"])))
    for r in obs[:1]:
        res.samples.append(dict(cfg=r["cfg"], order=r["order"], expected=r["expected"], lineage=r["lineage"], held=r["held"], ev=r["ev"]))


def canaries(tier, seed):
    r = run("quick", seed, mutant="dask_gather_no_wait", only_validate=True)
    n = [v for v in r.violations if v["signature"].get("kind") != "dask-order"]
    return [dict(name="mutant:dask_gather_no_wait", detected=bool(n), rejected=len(n))]
