"""Engine 'adf': DFAgg.tla -- streaming dataframe aggregations (C06, C07, C11, C12)."""
import json
import os
import shutil
import sys

sys.path.insert(0, os.path.dirname(os.path.dirname(os.path.abspath(__file__))))
import core   # noqa: E402
import amod   # noqa: E402

INVS = ["Matches", "Concatenated", "EwmLast", "Resumed"]
V4 = [0, 1, 2, 99]


def prop_of(cfg, cut, clause="out"):
    """which property does a scenario speak about?"""
    if cfg.get("failagg"):
        return "C16"        # a user-defined aggregation that raises: the accumulator keeps the state it had
    if cut and clause == "outB":
        return "C12"
    fam = cfg["family"]
    if fam in ("reduce", "groupby"):
        return "C06"
    if fam in ("rolling", "cumulative", "ewm") or (fam == "window" and cfg["winkind"] == "expanding"):
        return "C11"
    return "C07"


def mc_catalogue(tier):
    """(name, property, constants) of the exhaustive design-level runs"""
    big = tier != "quick"
    mb = 3
    L = []
    def add(name, prop, fam, agg, wk, w, vdom, kdom, dtdom, mr=2, nb=mb):
        L.append((name, prop, dict(Family=fam, Agg=agg, WinKind=wk, W=w, VDom=vdom, KDom=kdom, DtDom=dtdom, MaxRows=mr,
                                   MaxBatches=nb, MeanClamp=False, CarryNaN=False)))
    for agg in ("sum", "count", "size", "mean", "var", "value_counts"):
        add("reduce_" + agg, "C06", "reduce", agg, "rows", 0, V4, [1], [0], 2, 4 if big else 3)
    for agg in ("sum", "count", "size", "mean", "var"):
        add("groupby_" + agg, "C06", "groupby", agg, "rows", 0, [0, 1, 99], [1, 2], [0], 2, 3)
    for n in ((1, 2, 3) if big else (2,)):
        for agg in ("sum", "count", "size", "mean", "value_counts"):
            add("window%d_%s" % (n, agg), "C07", "window", agg, "rows", n, V4, [1], [0], 2 if not big else 3, 3)
        add("window%d_var" % n, "C07", "window", "var", "rows", n, [0, 1, 2], [1], [0], 2, 3)
        for agg in ("sum", "count", "mean", "size"):
            add("wgroupby%d_%s" % (n, agg), "C07", "wgroupby", agg, "rows", n, [1, 2], [1, 2], [0], 2, 3)
    for t in ((1, 2, 3) if big else (2,)):
        for agg in ("sum", "mean"):
            add("windowT%d_%s" % (t, agg), "C07", "window", agg, "time", t, [1, 2], [1], [0, 1, 2], 2, 3)
        add("wgroupbyT%d_sum" % t, "C07", "wgroupby", "sum", "time", t, [1, 2], [1, 2], [0, 1, 2], 2, 2)
    for n in ((1, 2, 3) if big else (2,)):
        for agg in ("sum", "count", "mean", "min", "max"):
            add("rolling%d_%s" % (n, agg), "C11", "rolling", agg, "rows", n, V4, [1], [0], 2 if n < 3 else 3, 3)
    for agg in ("sum", "max"):
        add("rollingT2_" + agg, "C11", "rolling", agg, "time", 2, [1, 2], [1], [0, 1, 2], 2, 3)
    for agg in ("cumsum", "cumprod", "cummin", "cummax"):
        add("cum_" + agg, "C11", "cumulative", agg, "rows", 0, V4, [1], [0], 2, 3)
    for com in (0, 1, 3):
        add("ewm_com%d" % com, "C11", "ewm", "mean", "expanding", com, [0, 1, 2], [1], [0], 2, 3)
    for agg in ("sum", "mean", "var"):
        add("expanding_" + agg, "C11", "window", agg, "expanding", 0, [0, 1, 2, 99] if agg != "var" else [0, 1, 2], [1], [0], 2, 3)
    return L


def run(tier, seed, mutant=None, only_validate=False):
    work = os.path.join(core.WORK, "adf_%s_%d" % (tier, os.getpid()))
    os.makedirs(work, exist_ok=True)
    res = core.EngineResult("adf")
    try:
        if not only_validate:
            import concurrent.futures as cf
            cat = mc_catalogue(tier)

            def one(item):
                name, prop, consts = item
                r2 = core.EngineResult("tmp")
                r, rec = amod.mc(r2, work, "DFAgg", name, consts, INVS, workers=4, coverage=False, timeout=1800)
                rec["property"] = prop
                return item, r, rec
            with cf.ThreadPoolExecutor(4) as ex:
                for (name, prop, consts), r, rec in ex.map(one, cat):
                    res.tlc_runs.append(rec)
                    if not r.ok and not amod.incomplete(r, rec):
                        res.violations.append(dict(property=prop, engine="adf", clause=r.violated or "tlc-error",
                                                   what="DFAgg.tla violates %s for %s" % (r.violated or (r.error or "")[:200], name),
                                                   signature=dict(kind="spec", clause=r.violated or "error", name=name)))
            # sensitivity: the two pre-fix algorithms are refuted
            for name, consts, inv in (
                    ("legacy_mean_clamp", dict(Family="reduce", Agg="mean", WinKind="rows", W=0, VDom=[0, 1], KDom=[1], DtDom=[0],
                                               MaxRows=1, MaxBatches=2, MeanClamp=True, CarryNaN=False), "Matches"),
                    ("legacy_cum_carry", dict(Family="cumulative", Agg="cumsum", WinKind="rows", W=0, VDom=[0, 1, 99], KDom=[1],
                                              DtDom=[0], MaxRows=2, MaxBatches=3, MeanClamp=False, CarryNaN=True), "Concatenated")):
                r, rec = amod.mc(res, work, "DFAgg", name, consts, [inv], coverage=False)
                rec["expected_violation"] = inv
                rec["ok"] = r.violated == inv
                if r.violated != inv:
                    raise core.MachineryError("sensitivity run %s: expected counter-example to %s not found" % (name, inv))
        out = os.path.join(work, "runs")
        args = ["--tier", tier, "--seed", seed, "--out", out]
        if mutant:
            args += ["--mutant", mutant]
        rc, so, se = core.run_driver("df_driver.py", args, timeout=3600)
        if rc != 0:
            raise core.MachineryError("dataframe driver failed: " + se[-1500:])
        with open(os.path.join(out, "runs.json")) as f:
            runs = json.load(f)
        groups = {}
        for r in runs:
            c = r["cfg"]
            key = (c["family"], c["agg"], c["winkind"], c["w"])
            groups.setdefault(key, []).append({"id": r["id"], "pre": c.get("pre", "none"), "cut": r["cut"], "steps": r["steps"]})
        glist = [("%s %s %s %s" % k, dict(Family=k[0], Agg=k[1], WinKind=k[2], W=k[3], VDom="<-EmptySet", KDom="<-EmptySet",
                                         DtDom="<-EmptySet", MaxRows=0, MaxBatches=100, MeanClamp=False, CarryNaN=False), ts)
                 for k, ts in groups.items()]
        reached, problems = amod.validate_groups(work, "DFAggTrace", glist, timeout=1800)
        res.traces = len(runs)
        res.evaluations = sum(len(r["steps"]) for r in runs)
        byid = {r["id"]: r for r in runs}
        for name, kind, detail in problems:
            if kind == "error":
                raise core.MachineryError("DFAggTrace failed on %s: %s" % (name, detail[:800]))
            inv = kind.split()[-1]
            fam = name.split()[0]
            prop = {"Matches": "C06" if fam in ("reduce", "groupby") else "C07", "Concatenated": "C11", "EwmLast": "C11",
                    "Resumed": "C12"}.get(inv, "C06")
            res.violations.append(dict(property=prop, engine="adf", clause=inv,
                                       what="a recorded run of a real %s pipeline violates %s" % (name, inv),
                                       detail=detail, signature=dict(kind="trace-invariant", clause=inv, group=name)))
        nt = set()
        for r in runs:
            got = reached.get(r["id"])
            if got is None:
                continue
            c = r["cfg"]
            batches = [s["raw"] for s in r["steps"]]
            if got[0] >= got[1]:
                res.accepted += 1
                if len(batches) >= 2 and any(len(b) == 0 for b in batches) or sum(len(b) for b in batches) >= 3:
                    nt.add(json.dumps([c, batches, r["cut"]]))
            else:
                st = r["steps"][got[0] - 1]
                # which comparison failed first? (re-derived from the logged values: emitted vs pandas, resumed vs original)
                clause = "out"
                if "error" in st:
                    clause = "error"
                elif r["cut"] and "outB" in st and st.get("outB") != st.get("out"):
                    clause = "outB"
                prop = prop_of(c, r["cut"], clause)
                # an expanding window *is* the aggregation over everything seen so far -- and the only way to reach var / std
                # without a groupby: it speaks about C06 as much as about C11
                also = ["C06"] if (c["family"] == "window" and c["winkind"] == "expanding" and prop == "C11") else []
                res.violations.append(dict(
                    property=prop, also=also, engine="adf", clause=clause,
                    what="%s.%s(%s=%s)%s%s batches %s%s: after batch #%d the pipeline emitted %s, pandas on the data seen gives %s%s%s" % (
                        c["family"], c["agg"], c["winkind"], c["w"], " frame" if c.get("frame") else "",
                        " pre=" + c["pre"] if c.get("pre") else "", json.dumps(batches[:got[0]]),
                        " cut after %d" % r["cut"] if r["cut"] else "", got[0], json.dumps(st.get("out")), json.dumps(st.get("pandas")),
                        (", resumed pipeline emitted " + json.dumps(st.get("outB"))) if "outB" in st else "",
                        (", error " + st["error"]) if "error" in st else ""),
                    signature=dict(kind="trace", family=c["family"], agg=c["agg"], winkind=c["winkind"], clause=clause,
                                   first_batch_empty=bool(batches and len(batches[0]) == 0) if clause != "error" else None,
                                   error=st.get("error", "")[:60] if clause == "error" else None),
                    replay=dict(engine="adf", cfg=c, batches=batches[:got[0]], cut=r["cut"], observed=st)))
        res.nontrivial = len(nt)
        res.rule = ("adf: ~110 aggregation configurations (reductions, groupby with column / streaming-series grouper, row / time / "
                    "expanding windows, windowed groupby, rolling, cumulative, ewm; Series and two-column frames; filter / assignment in "
                    "front) x random tables over {0,1,2,NaN} x 3 keys x timestamps split into <= 4 batches incl. empty ones, plus fixed "
                    "corner sequences; restart scenarios with a random cut; non-trivial = an empty batch among >= 2, or >= 3 rows")
        for r in runs[:1] + runs[-1:]:
            res.samples.append(dict(cfg=r["cfg"], cut=r["cut"], steps=r["steps"][:3]))
    finally:
        shutil.rmtree(work, ignore_errors=True)
    return res


def canaries(tier, seed):
    r = run("quick", seed, mutant="df_count_size", only_validate=True)
    return [dict(name="mutant:df_count_size", detected=bool(r.violations), rejected=len(r.violations))]
