"""Engine 'aemit': AsyncEmit.tla -- emit()/_emit() fan-out to consumers reached through synchronous hand-offs
(C03 emit-waits, C01/C02 fan-out order, the _emit part of C04/C05)."""
import os
import shutil
import sys

sys.path.insert(0, os.path.dirname(os.path.dirname(os.path.abspath(__file__))))
import core   # noqa: E402
import amod   # noqa: E402

INV_PROP = {"EmitWaits": "C03", "EmitsComplete": "C03", "FanOutOrder": "C02", "CbSafe": "C04", "RcBalance": "C05"}


def adapt(run):
    out, cur, d2 = [], None, {}
    for ev in run["ev"]:
        k = ev["ev"]
        if k == "emit_call":
            cur = {"ev": "EmitCall", "e": ev["e"], "deliveries": [], "fired": False, "mdok": True, "fires": 0, "firedAfter": 0}
            out.append(cur)
        elif k in ("emit_ret", "emit_raised"):
            cur = None
            if k == "emit_raised":
                out.append({"ev": "EmitRaised", "e": ev["e"], "exc": ev.get("exc")})
        elif k == "deliver":
            e = ev["x"][0] if len(ev["x"]) == 1 else -1
            d2[ev["d"]] = (e, ev["probe"])
            if cur is not None and cur["e"] == e:
                cur["deliveries"].append(ev["probe"])
                cur["mdok"] = cur["mdok"] and ev["md"] == [e]
            else:
                out.append({"ev": "LateDelivery", "e": e, "c": ev["probe"]})
        elif k == "release" and ev["fired"]:
            if cur is not None and cur["e"] == ev["tag"] and ev["site"].endswith("@source"):
                if not cur["fired"]:
                    cur["firedAfter"] = len(cur["deliveries"])      # how many consumers had been called when the callback fired
                cur["fired"] = True
                cur["fires"] += 1
            else:
                out.append({"ev": "FiredElsewhere", "e": ev["tag"], "site": ev["site"]})
        elif k == "cons_done":
            e, c = d2.get(ev["d"], (-1, -1))
            if run["cfg"]["cons"][c - 1] != "sync" and not ev.get("sync"):
                out.append({"ev": "ConsumerDone", "e": e, "c": c})
        elif k == "cons_fail":
            e, c = d2.get(ev["d"], (-1, -1))
            out.append({"ev": "ConsumerFail", "e": e, "c": c})
        elif k == "emit_done":
            if ev.get("exc"):
                out.append({"ev": "EmitRaised", "e": ev["e"], "exc": ev["exc"]})
            else:
                out.append({"ev": "EmitDone", "e": ev["e"]})
        elif k == "end":
            out.append({"ev": "End"})
        if "obs" in ev and k != "end":
            out.append({"ev": "ObsRc", "rc": ev["obs"]["rc"]})
    return out


def attribute(run, trace, idx):
    if idx > len(trace):
        return "C03", "end"
    ev = trace[idx - 1]
    k = ev["ev"]
    if k == "EmitCall":
        exp = list(range(1, len(run["cfg"]["cons"]) + 1))
        if not ev.get("mdok", True):
            return "C10", "element %s reached a consumer without exactly its own metadata" % ev["e"]
        if ev["deliveries"] != exp:
            return "C02", "consumers were served %s instead of %s (fan-out order / completeness)" % (ev["deliveries"], exp)
        if ev.get("fired") and ev.get("firedAfter", len(exp)) < len(exp):
            return "C04", ("the completion callback of element %s fired when only %d of the %d consumers had been called"
                           % (ev["e"], ev["firedAfter"], len(exp)))
        if ev.get("fires", 0) > 1:
            return "C05", "the completion callback of element %s fired %d times during one emit" % (ev["e"], ev["fires"])
        return "C05", "reference handling in _emit differs from the specification"
    if k in ("EmitDone", "EmitRaised"):
        failed = any(x["ev"] == "ConsumerFail" and x.get("e") == ev.get("e") for x in trace[:idx - 1])
        if failed or k == "EmitRaised":
            return "C16", ("a consumer of element %s raised: the emitter must get exactly that exception, once all awaitables of the emit "
                           "have finished (observed: %s)" % (ev.get("e"), k)), ["C03"]
        later = any(x["ev"] == "ConsumerFail" and x.get("e") == ev.get("e") for x in trace[idx:])
        if later:
            # the emit was over before its consumer failed: that failure can no longer reach the emitter
            return "C03", ("the emit of element %s completed while its consumer was still at work; the consumer then raised and "
                           "nobody was left to receive the exception" % ev.get("e")), ["C16"]
        return "C03", "%s at a point the specification does not allow (emit must wait for all reachable consumers)" % k
    if k in ("LateDelivery", "ConsumerDone"):
        return "C02", "%s not allowed by the specification" % k
    if k in ("ObsRc", "FiredElsewhere"):
        return "C05", "reference counts differ from the specification"
    return "C03", k


def consts_of(c):
    return dict(NE=c["max_elems"], K=len(c["cons"]), AsyncSet=[i + 1 for i, m in enumerate(c["cons"]) if m != "sync"],
                MaxOut=c["max_elems"], HoldRefs=False, Faults=bool(c.get("faults")), FirstSync=[i + 1 for i, m in enumerate(c["cons"]) if m == "sinkfn_first_none"])


SHAPES = ["direct", "map", "slice", "tree", "union1", "pluckmap", "flatmap", "filter", "starmap", "accumulate", "unique",
          "j_zip_latest", "j_union"]


def run(tier, seed, mutant=None, only_validate=False):
    work = os.path.join(core.WORK, "aemit_%s_%d" % (tier, os.getpid()))
    os.makedirs(work, exist_ok=True)
    res = core.EngineResult("aemit")
    ne = 3
    try:
        if not only_validate:
            for k, aset in ((1, [1]), (2, [1, 2]), (3, [1, 3]), (3, [2])) + (((3, [1, 2, 3]),) if tier != "quick" else ()):
                for maxout in (1, ne):
                    # the ideal design holds references until the consumers' awaitables finish: everything holds
                    r, rec = amod.mc(res, work, "AsyncEmit", "ideal_k%d_a%s_o%d" % (k, "".join(map(str, aset)), maxout),
                                     dict(NE=ne, K=k, AsyncSet=aset, MaxOut=maxout, HoldRefs=True, FirstSync=[], Faults=True),
                                     ["EmitWaits", "FanOutOrder", "CbSafe", "RcBalance"], ["EmitsComplete"], spec="FairSpec")
                    amod.spec_violation(res, r, rec, INV_PROP, "C03", "emit")
                    # the tree: everything but CbSafe
                    r, rec = amod.mc(res, work, "AsyncEmit", "tree_k%d_a%s_o%d" % (k, "".join(map(str, aset)), maxout),
                                     dict(NE=ne, K=k, AsyncSet=aset, MaxOut=maxout, HoldRefs=False, FirstSync=[], Faults=True),
                                     ["EmitWaits", "FanOutOrder", "RcBalance"], ["EmitsComplete"], spec="FairSpec")
                    amod.spec_violation(res, r, rec, INV_PROP, "C03", "emit")
            r, rec = amod.mc(res, work, "AsyncEmit", "tree_CbSafe", dict(NE=2, K=2, AsyncSet=[2], MaxOut=2, HoldRefs=False, FirstSync=[], Faults=True), ["CbSafe"])
            rec["expected_violation"] = "CbSafe"
            rec["ok"] = r.violated == "CbSafe"
            if r.violated != "CbSafe":
                raise core.MachineryError("sensitivity run: release-on-return in _emit not refuted by CbSafe")
        cfgs = []
        for shape in (SHAPES if tier != "quick" else SHAPES):
            if shape == "tree":
                combos = [["future", "coro", "sync"], ["coro", "future"], ["sync", "future", "future"]]
            else:
                combos = [["future"], ["coro", "future"], ["future", "sync", "coro"]]
                if tier != "quick":
                    combos += [["coro"], ["sync", "coro"], ["future", "future", "future"]]
            for cons in combos:
                cfgs.append({"kind": shape, "cons": cons, "max_elems": ne})
            if shape in ("direct", "map", "filter"):
                # the library's own sink around a plain function that hands back the awaitable of an asynchronous writer
                for cons in (["sinkfn"], ["sinkfn_first_none"], ["sync", "sinkfn_first_none", "future"], ["sinkfn_handle"], ["sinkfn_handle", "coro"]):
                    cfgs.append({"kind": shape, "cons": cons, "max_elems": ne})
                # consumers whose awaitable raises
                for cons in (["future"], ["sinkfn"], ["coro", "future"]):
                    cfgs.append({"kind": shape, "cons": cons, "max_elems": ne, "faults": True})
        amod.node_engine(res, work, node="emit", trace_module="AsyncEmitTrace", cfgs=cfgs, consts_of=consts_of,
                         adapt=adapt, attribute=attribute, seed=seed, depth=6 if tier == "quick" else 8,
                         limit=60 if tier == "quick" else 600, nrandom=60 if tier == "quick" else 600,
                         default_prop="C03", mutant=mutant,
                         nontrivial=lambda r, t: any(x["ev"] == "ConsumerDone" for x in t))
        res.rule = ("aemit: emit() through {direct, map, slice, union, pluck, flatten, filter, starmap, accumulate, unique, tree} to 1..3 consumers of "
                    "mixed styles x schedules over {emit, finish oldest/newest consumer, one loop iteration}; non-trivial = an asynchronous "
                    "consumer completion; distinct by (configuration, schedule)")
    finally:
        shutil.rmtree(work, ignore_errors=True)
    return res


def canaries(tier, seed):
    r = run("quick", seed, mutant="map_drop_result", only_validate=True)
    n = [v for v in r.violations if v["signature"].get("kind") != "premature-callback"]
    return [dict(name="mutant:map_drop_result", detected=bool(n), rejected=len(n))]


TRACE_MODULE = "AsyncEmitTrace"


def replay(v):
    import sys as _s
    return amod.replay_node(_s.modules[__name__], v)
