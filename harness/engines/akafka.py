"""Engine 'akafka': KafkaBatched.tla -- the batched Kafka source against an in-memory confluent_kafka (C09)."""
import json
import os
import shutil
import sys

sys.path.insert(0, os.path.dirname(os.path.dirname(os.path.abspath(__file__))))
import core   # noqa: E402
import amod   # noqa: E402

INVS = ["Contiguous", "WellFormed", "StartsAtSeed", "BelowHighWatermark", "SizeLimit", "CommitAfterProcess", "AtLeastOnce"]


def run(tier, seed, mutant=None, only_validate=False):
    work = os.path.join(core.WORK, "akafka_%s_%d" % (tier, os.getpid()))
    os.makedirs(work, exist_ok=True)
    res = core.EngineResult("akafka")
    try:
        if not only_validate:
            for latest in (False, True):
                for refresh in (False, True):
                    for mb in ((2,) if tier == "quick" else (1, 2, 3)):
                        r, rec = amod.mc(res, work, "KafkaBatched", "latest%d_refresh%d_mb%d" % (latest, refresh, mb),
                                         dict(NP0=1, MaxParts=2, MaxMsgs=3 if tier == "quick" else 4, MaxBatch=mb, Latest=latest,
                                              Refresh=refresh, MaxCrashes=1 if tier == "quick" else 2, InOrder=True, Faults=True),
                                         INVS, workers=16, coverage=False, timeout=3000)
                        amod.spec_violation(res, r, rec, {}, "C09", "kafka")
            # the proviso "batches of a partition complete in order" is necessary: without it TLC finds the loss
            r, rec = amod.mc(res, work, "KafkaBatched", "no_inorder", dict(NP0=1, MaxParts=1, MaxMsgs=3, MaxBatch=1, Latest=False,
                             Refresh=False, MaxCrashes=1, InOrder=False, Faults=False), ["AtLeastOnce"], coverage=False)
            rec["expected_violation"] = "AtLeastOnce"
            rec["ok"] = r.violated == "AtLeastOnce"
            if r.violated != "AtLeastOnce":
                raise core.MachineryError("sensitivity run: out-of-order completion not refuted by AtLeastOnce")
        out = os.path.join(work, "runs")
        args = ["--tier", tier, "--seed", seed, "--out", out]
        if mutant:
            args += ["--mutant", mutant]
        rc, so, se = core.run_driver("kafka_driver.py", args, timeout=3000)
        if rc != 0:
            raise core.MachineryError("kafka driver failed: " + se[-1500:])
        with open(os.path.join(out, "runs.json")) as f:
            runs = json.load(f)
        groups = {}
        for r in runs:
            c = r["cfg"]
            key = (c["np0"], c["maxparts"], c["maxbatch"], c["latest"], c["refresh"])
            groups.setdefault(key, []).append({"id": r["id"], "ev": r["ev"]})
        glist = [("kafka np0=%s maxparts=%s maxbatch=%s latest=%s refresh=%s" % k,
                  dict(NP0=k[0], MaxParts=k[1], MaxMsgs=100, MaxBatch=k[2], Latest=k[3], Refresh=k[4], MaxCrashes=100, InOrder=True, Faults=True), ts)
                 for k, ts in groups.items()]
        reached, problems = amod.validate_groups(work, "KafkaBatchedTrace", glist, timeout=1800)
        res.traces = len(runs)
        res.evaluations = sum(len(r["ev"]) for r in runs)
        for name, kind, detail in problems:
            if kind == "error":
                raise core.MachineryError("KafkaBatchedTrace failed on %s: %s" % (name, detail[:800]))
            inv = kind.split()[-1]
            res.violations.append(dict(property="C09", engine="akafka", clause=inv,
                                       what="a recorded run of the real Kafka source violates %s (%s)" % (inv, name),
                                       detail=detail, signature=dict(kind="trace-invariant", clause=inv)))
        nt = set()
        for r in runs:
            got = reached.get(r["id"])
            if got is None:
                continue
            if got[0] >= got[1]:
                res.accepted += 1
                if any(e["ev"] == "Commit" for e in r["ev"]) and any(e["ev"] == "Crash" for e in r["ev"]):
                    nt.add(json.dumps([r["cfg"], r["schedule"]]))
            else:
                e = r["ev"][got[0] - 1]
                res.violations.append(dict(
                    property="C09", engine="akafka", clause=e["ev"],
                    what="kafka %s schedule '%s': event #%d %s is not what KafkaBatched allows (offset range / commit / restart position)"
                         % (json.dumps(r["cfg"], sort_keys=True), " ".join(r["schedule"]), got[0], e),
                    signature=dict(kind="trace", event=e["ev"]),
                    replay=dict(engine="akafka", cfg=r["cfg"], schedule=r["schedule"], at=got[0], trace=r["ev"][:got[0] + 1])))
        res.nontrivial = len(nt)
        res.rule = ("akafka: FromKafkaBatched over an in-memory confluent_kafka x {earliest, latest} x refresh_partitions x max_batch_size 1..3 "
                    "x random histories over {produce to a partition, add a partition, start, crash (+ restart with the same group), one "
                    "loop iteration, one poll, finish oldest / newest consumer (in order per partition)}; non-trivial = a commit and a crash")
        for r in runs[:2]:
            res.samples.append(dict(cfg=r["cfg"], schedule=" ".join(r["schedule"]), events=r["ev"][:14]))
    finally:
        shutil.rmtree(work, ignore_errors=True)
    return res


def canaries(tier, seed):
    r = run("quick", seed, mutant="kafka_commit_offset", only_validate=True)
    return [dict(name="mutant:kafka_commit_offset", detected=bool(r.violations), rejected=len(r.violations))]
