"""Engine 'alatest': AsyncLatest.tla -- the lossy latest() node (C14, and its part of C04/C05)."""
import os
import shutil
import sys

sys.path.insert(0, os.path.dirname(os.path.dirname(os.path.abspath(__file__))))
import core   # noqa: E402
import amod   # noqa: E402

INVS = ["TypeOK", "Subsequence", "NewestDelivered", "CbSafe", "RcBalance"]
INV_PROP = {"Subsequence": "C14", "NewestDelivered": "C14", "NewestEventually": "C14", "CbSafe": "C04",
            "RcBalance": "C05", "NoResurrection": "C05", "TypeOK": "C14"}


def adapt(run):
    sync = run["cfg"]["cons"][0] == "sync"
    out = []
    cur = None
    for ev in run["ev"]:
        k = ev["ev"]
        if k == "emit_call":
            cur = {"ev": "Arrive", "e": ev["e"], "drop": 0, "dropFired": False}
            out.append(cur)
        elif k == "emit_ret":
            cur = None
        elif k == "release" and ev["site"].endswith("latest.update") and cur is not None:
            cur["drop"] = ev["tag"]
            cur["dropFired"] = bool(ev["fired"])
        elif k == "deliver":
            out.append({"ev": "CbEmit", "e": ev["x"][0] if len(ev["x"]) == 1 else -1, "md": ev["md"]})
        elif k == "cons_done" and not sync:
            out.append({"ev": "ConsumerDone"})
        elif k == "release" and ev["site"].endswith(".cb"):
            out.append({"ev": "CbRelease", "e": ev["tag"], "count": ev["count"], "fired": bool(ev["fired"])})
        elif k == "release" and ev["fired"]:
            out.append({"ev": "FiredElsewhere", "e": ev["tag"], "site": ev["site"]})
        elif k == "end":
            out.append({"ev": "End", "quiescent": bool(ev["quiescent"])})
        if "obs" in ev and k != "end":
            o = ev["obs"]
            if "slot" in o:                                          # (private state: compared only if readable)
                out.append({"ev": "ObsSlot", "slot": (o.get("slot") or [0])[0]})
            out.append({"ev": "ObsRc", "rc": o["rc"]})
    return out


def attribute(run, trace, idx):
    if idx > len(trace):
        return "C14", "end"
    ev = trace[idx - 1]
    k = ev["ev"]
    if k == "CbEmit" and ev.get("md") != [ev.get("e")]:
        return "C10", "element %s was delivered with metadata %s instead of its own" % (ev.get("e"), ev.get("md"))
    if k == "CbEmit":
        return "C14", "delivery of %s is not allowed here (duplicate, stale or out of order)" % ev.get("e")
    if k == "End":
        return "C14", "at quiescence the newest element has not been delivered (lost wake-up)"
    if k in ("CbRelease", "FiredElsewhere", "Arrive"):
        e = ev.get("e") if k != "Arrive" else ev.get("drop")
        fired = ev.get("fired") or ev.get("dropFired") or k == "FiredElsewhere"
        if fired:
            # in flight = delivered and consumer not finished
            busy = None
            for x in trace[:idx - 1]:
                if x["ev"] == "CbEmit":
                    busy = x.get("e")
                if x["ev"] in ("ConsumerDone",):
                    busy = None
            if busy == e and run["cfg"]["cons"][0] != "sync":
                return "C04", "completion callback of element %s fired while its consumer was still busy" % e
        return "C05", "reference handling of element %s differs from the specification (%s)" % (e, k)
    if k == "ObsRc":
        return "C05", "reference counts differ from the specification"
    return "C14", k


def run(tier, seed, mutant=None, only_validate=False):
    work = os.path.join(core.WORK, "alatest_%s_%d" % (tier, os.getpid()))
    os.makedirs(work, exist_ok=True)
    res = core.EngineResult("alatest")
    ne = 4 if tier == "quick" else 5
    try:
        if not only_validate:
            for sync in (False, True):
                # the ideal design (cb owns the reference while it emits): everything holds
                r, rec = amod.mc(res, work, "AsyncLatest", "ideal_sync%d" % sync,
                                 dict(NE=ne, SyncCons=sync, Legacy=False, CbOwns=True),
                                 INVS, ["NoResurrection", "NewestEventually"], spec="FairSpec")
                amod.spec_violation(res, r, rec, INV_PROP, "C14", "latest")
                # the tree (slot keeps the reference): everything but CbSafe
                r, rec = amod.mc(res, work, "AsyncLatest", "tree_sync%d" % sync,
                                 dict(NE=ne, SyncCons=sync, Legacy=False, CbOwns=False),
                                 [i for i in INVS if i != "CbSafe"], ["NoResurrection", "NewestEventually"], spec="FairSpec")
                amod.spec_violation(res, r, rec, INV_PROP, "C14", "latest")
            # sensitivity: the pre-fix algorithm must be refuted by the same properties (guards against vacuity),
            # and the tree's reference handling must be refuted by CbSafe (re-demonstrates known finding F06-latest)
            for name, consts, inv in (("legacy_Subsequence", dict(NE=3, SyncCons=False, Legacy=True, CbOwns=False), "Subsequence"),
                                      ("legacy_NewestDelivered", dict(NE=3, SyncCons=False, Legacy=True, CbOwns=False), "NewestDelivered"),
                                      ("tree_CbSafe", dict(NE=3, SyncCons=False, Legacy=False, CbOwns=False), "CbSafe")):
                r, rec = amod.mc(res, work, "AsyncLatest", name, consts, [inv])
                rec["expected_violation"] = inv
                rec["ok"] = (r.violated == inv)
                if r.violated != inv:
                    raise core.MachineryError("sensitivity run %s: expected counter-example to %s not found" % (name, inv))
        cfgs = [{"kind": "latest", "cons": [c], "max_elems": ne} for c in ("future", "coro", "sync")]
        cfgs += [{"kind": "latest", "cons": ["future"], "max_elems": ne, "fine": True}]
        # latest as the lossless input of zip_latest (whose update() answers with a nested list)
        cfgs += [{"kind": "latest", "cons": [c], "max_elems": ne, "tail": "zip_latest"} for c in ("future", "sync")]
        # the input is disconnected at some point: "input has stopped" -- the newest element received is still owed
        cfgs += [{"kind": "latest", "cons": [c], "max_elems": ne, "disconnect": True} for c in ("future", "sync")]
        # falsy payloads: elements whose value is None / 0 are elements like any other
        cfgs += [{"kind": "latest", "cons": ["future"], "max_elems": ne, "falsy": f}
                 for f in ({"none": 2, "zero": 3}, {"none": ne}, {"zero": 1, "none": 3})]
        # start() / stop();start() reaching the node from downstream (idle, busy, between arrivals): nothing changes
        import random as _random
        _rng = _random.Random(seed + 7)
        life = ["e1 s s d s Z e1 s s d", "e1 s s Z e1 s s d s d", "R e1 s s d Z e1 s s d Z e1 s s d", "e1 s s d s s Z s e1 s s s d"]
        life += [" ".join(_rng.choice(["e1", "e1", "s", "s", "d", "R", "Z"]) for _ in range(_rng.randint(6, 14)))
                 for _ in range(60 if tier == "quick" else 600)]
        cfgs += [{"kind": "latest", "cons": [c], "max_elems": ne, "lifecycle": True, "schedules": life} for c in ("future", "sync")]
        # a one-shot subscriber in front of the watched consumer detaches itself in the middle of a delivery
        cfgs += [{"kind": "latest", "cons": [c], "max_elems": ne, "oneshot": k} for c in ("future", "sync") for k in (1, 2)]
        amod.node_engine(res, work, node="latest", trace_module="AsyncLatestTrace", cfgs=cfgs,
                         consts_of=lambda c: dict(NE=ne, SyncCons=c["cons"][0] == "sync", Legacy=False, CbOwns=False),
                         adapt=adapt, attribute=attribute, seed=seed, depth=8 if tier == "quick" else 10,
                         limit=400 if tier == "quick" else 4000, nrandom=200 if tier == "quick" else 2000,
                         default_prop="C14", mutant=mutant,
                         nontrivial=lambda r, t: 0 < sum(1 for x in t if x["ev"] == "CbEmit") < sum(1 for x in t if x["ev"] == "Arrive"))
        res.rule = ("alatest: latest() x consumer style x all schedules of depth <= 8/10 over {arrive, finish consumer, run one "
                    "loop iteration} + random longer ones, each followed by a drain; non-trivial = at least one element was "
                    "overwritten before delivery; distinct by (consumer style, schedule)")
    finally:
        shutil.rmtree(work, ignore_errors=True)
    return res


def canaries(tier, seed):
    r = run("quick", seed, mutant="latest_no_notify", only_validate=True)
    n = [v for v in r.violations if v["signature"].get("kind") != "premature-callback"]
    return [dict(name="mutant:latest_no_notify", detected=bool(n), rejected=len(n))]


TRACE_MODULE = "AsyncLatestTrace"
consts_of = lambda c: dict(NE=c['max_elems'], SyncCons=c['cons'][0] == 'sync', Legacy=False, CbOwns=False)


def replay(v):
    import sys as _s
    return amod.replay_node(_s.modules[__name__], v)
