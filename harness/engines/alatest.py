"""Engine 'alatest': AsyncLatest.tla -- the lossy latest() node (C14, and its part of C04/C05)."""
import os
import shutil
import sys

sys.path.insert(0, os.path.dirname(os.path.dirname(os.path.abspath(__file__))))
import core   # noqa: E402
import amod   # noqa: E402

INVS = ["TypeOK", "Subsequence", "NewestDelivered", "CbSafe", "RcBalance"]
INV_PROP = {"Subsequence": "C14", "NewestDelivered": "C14", "NewestEventually": "C14", "CbSafe": "C04",
            "RcBalance": "C05", "NoResurrection": "C05", "TypeOK": "C14"}


def adapt(run):
    sync = run["cfg"]["cons"][0] == "sync"
    out = []
    cur = None
    for ev in run["ev"]:
        k = ev["ev"]
        if k == "emit_call":
            cur = {"ev": "Arrive", "e": ev["e"], "drop": 0, "dropFired": False}
            out.append(cur)
        elif k == "emit_ret":
            cur = None
        elif k == "release" and ev["site"].endswith("latest.update") and cur is not None:
            cur["drop"] = ev["tag"]
            cur["dropFired"] = bool(ev["fired"])
        elif k == "deliver":
            out.append({"ev": "CbEmit", "e": ev["x"][0] if len(ev["x"]) == 1 else -1})
        elif k == "cons_done" and not sync:
            out.append({"ev": "ConsumerDone"})
        elif k == "release" and ev["site"].endswith(".cb"):
            out.append({"ev": "CbRelease", "e": ev["tag"], "count": ev["count"], "fired": bool(ev["fired"])})
        elif k == "release" and ev["fired"]:
            out.append({"ev": "FiredElsewhere", "e": ev["tag"], "site": ev["site"]})
        elif k == "end":
            out.append({"ev": "End", "quiescent": bool(ev["quiescent"])})
        if "obs" in ev and k != "end":
            o = ev["obs"]
            out.append({"ev": "ObsSlot", "slot": (o.get("slot") or [0])[0]})
            out.append({"ev": "ObsRc", "rc": o["rc"]})
    return out


def attribute(run, trace, idx):
    if idx > len(trace):
        return "C14", "end"
    ev = trace[idx - 1]
    k = ev["ev"]
    if k == "CbEmit":
        return "C14", "delivery of %s is not allowed here (duplicate, stale or out of order)" % ev.get("e")
    if k == "End":
        return "C14", "at quiescence the newest element has not been delivered (lost wake-up)"
    if k in ("CbRelease", "FiredElsewhere", "Arrive"):
        e = ev.get("e") if k != "Arrive" else ev.get("drop")
        fired = ev.get("fired") or ev.get("dropFired") or k == "FiredElsewhere"
        if fired:
            # in flight = delivered and consumer not finished
            busy = None
            for x in trace[:idx - 1]:
                if x["ev"] == "CbEmit":
                    busy = x.get("e")
                if x["ev"] in ("ConsumerDone",):
                    busy = None
            if busy == e and run["cfg"]["cons"][0] != "sync":
                return "C04", "completion callback of element %s fired while its consumer was still busy" % e
        return "C05", "reference handling of element %s differs from the specification (%s)" % (e, k)
    if k == "ObsRc":
        return "C05", "reference counts differ from the specification"
    return "C14", k


def run(tier, seed, mutant=None, only_validate=False):
    work = os.path.join(core.WORK, "alatest_%s_%d" % (tier, os.getpid()))
    os.makedirs(work, exist_ok=True)
    res = core.EngineResult("alatest")
    ne = 4 if tier == "quick" else 5
    try:
        if not only_validate:
            for sync in (False, True):
                r, rec = amod.mc(res, work, "AsyncLatest", "sync%d" % sync, dict(NE=ne, SyncCons=sync, Legacy=False),
                                 INVS, ["NoResurrection", "NewestEventually"], spec="FairSpec")
                if not r.ok:
                    res.violations.append(dict(property=INV_PROP.get(r.violated or "", "C14"), engine="alatest",
                                               clause=r.violated or "tlc-error",
                                               what="AsyncLatest.tla violates %s" % r.violated,
                                               signature=dict(kind="spec", clause=r.violated or "error", node="latest")))
            # sensitivity: the pre-fix algorithm must be refuted by the same properties (guards against vacuity)
            for inv in ("Subsequence", "NewestDelivered", "CbSafe"):
                r, rec = amod.mc(res, work, "AsyncLatest", "legacy_" + inv, dict(NE=3, SyncCons=False, Legacy=True), [inv])
                rec["expected_violation"] = inv
                rec["ok"] = (r.violated == inv)
                if r.violated != inv:
                    raise core.MachineryError("sensitivity run: legacy latest algorithm not refuted by " + inv)
        cfgs = [{"kind": "latest", "cons": [c], "max_elems": ne} for c in ("future", "coro", "sync")]
        runs = amod.drive(work, cfgs, seed, depth=8 if tier == "quick" else 10, limit=400 if tier == "quick" else 4000,
                          nrandom=200 if tier == "quick" else 2000, mutant=mutant)
        groups, traces = {}, {}
        for i, r in enumerate(runs, start=1):
            t = adapt(r)
            groups.setdefault(r["cfg"]["cons"][0], (r["cfg"], []))[1].append({"id": i, "ev": t})
            traces[i] = (r, t)
        glist = [("latest " + c["cons"][0], dict(NE=ne, SyncCons=c["cons"][0] == "sync", Legacy=False), ts)
                 for c, ts in groups.values()]
        reached, problems = amod.validate_groups(work, "AsyncLatestTrace", glist)
        res.traces = len(runs)
        res.evaluations = sum(len(t[1]) for t in traces.values())
        for name, kind, detail in problems:
            if kind == "error":
                raise core.MachineryError("AsyncLatestTrace failed on %s: %s" % (name, detail[:600]))
            inv = kind.split()[-1]
            res.violations.append(dict(property="C14", engine="alatest", clause=inv,
                                       what="a recorded run of the real latest node violates %s (%s)" % (inv, name),
                                       detail=detail, signature=dict(kind="trace-invariant", clause=inv, node="latest")))
        nontriv = set()
        for i, (r, t) in traces.items():
            got = reached.get(i)
            if got is None:
                continue
            if got[0] >= got[1]:
                res.accepted += 1
                ndel = sum(1 for x in t if x["ev"] == "CbEmit")
                narr = sum(1 for x in t if x["ev"] == "Arrive")
                if 0 < ndel < narr:
                    nontriv.add(" ".join(r["schedule"]) + r["cfg"]["cons"][0])
            else:
                prop, why = attribute(r, t, got[0])
                evt = t[got[0] - 1] if got[0] <= len(t) else {"ev": "end"}
                res.violations.append(dict(
                    property=prop, engine="alatest", clause=evt["ev"],
                    what="latest() consumer=%s schedule '%s': event #%d %s -- %s" % (
                        r["cfg"]["cons"][0], " ".join(r["schedule"]), got[0], evt, why),
                    signature=dict(kind="trace", node="latest", event=evt["ev"]),
                    replay=dict(engine="alatest", cfg=r["cfg"], schedule=r["schedule"], at=got[0], trace=t[:got[0] + 2])))
        res.nontrivial = len(nontriv)
        res.rule = ("alatest: latest() x consumer style x all schedules of depth <= 8/10 over {arrive, finish consumer, run one "
                    "loop iteration} + random longer ones, each followed by a drain; non-trivial = at least one element was "
                    "overwritten before delivery; distinct by (consumer style, schedule)")
        for r in runs[:2]:
            res.samples.append(dict(cfg=r["cfg"], schedule=" ".join(r["schedule"]),
                                    delivered=[e["x"] for e in r["ev"] if e["ev"] == "deliver"]))
    finally:
        shutil.rmtree(work, ignore_errors=True)
    return res


def canaries(tier, seed):
    r = run("quick", seed, mutant="latest_no_notify", only_validate=True)
    return [dict(name="mutant:latest_no_notify", detected=bool(r.violations), rejected=len(r.violations))]
