"""Engine 'alatestthr': ThreadLatest.tla -- latest() in threaded operation: the loop runs in streamz' background thread, a
producer thread pushes with emit(x, asynchronous=True) (the wake-up protocol between the two threads; C14)."""
import json
import os
import shutil
import sys

sys.path.insert(0, os.path.dirname(os.path.dirname(os.path.abspath(__file__))))
import core   # noqa: E402
import amod   # noqa: E402

INVS = ["TypeOK", "Subsequence", "OnlyArrived", "NoLostWakeup"]


def run(tier, seed, mutant=None, only_validate=False):
    work = os.path.join(core.WORK, "alatestthr_%s_%d" % (tier, os.getpid()))
    os.makedirs(work, exist_ok=True)
    res = core.EngineResult("alatestthr")
    try:
        if not only_validate:
            for ne in ((3,) if tier == "quick" else (3, 5)):
                r, rec = amod.mc(res, work, "ThreadLatest", "ne%d" % ne, dict(NE=ne, DirectNotify=False), INVS, ["NewestDelivered"],
                                 spec="FairSpec", coverage=False)
                amod.spec_violation(res, r, rec, {}, "C14", "latest-threaded")
            # sensitivity: condition.notify() called by the pushing thread itself
            r, rec = amod.mc(res, work, "ThreadLatest", "direct_notify", dict(NE=2, DirectNotify=True), ["NoLostWakeup"], coverage=False)
            rec["expected_violation"] = "NoLostWakeup"
            rec["ok"] = r.violated == "NoLostWakeup"
            if r.violated != "NoLostWakeup":
                raise core.MachineryError("sensitivity run: a notify from the pushing thread not refuted by NoLostWakeup")
        out = os.path.join(work, "runs")
        args = ["--tier", tier, "--seed", seed, "--out", out]
        if mutant:
            args += ["--mutant", mutant]
        rc, so, se = core.run_driver("threadlatest_driver.py", args, timeout=3000)
        if rc != 0:
            raise core.MachineryError("threadlatest driver failed: " + se[-1500:])
        with open(os.path.join(out, "runs.json")) as f:
            runs = json.load(f)
        groups = {}
        for r in runs:
            groups.setdefault(r["ne"], []).append({"id": r["id"], "ev": r["ev"]})
        glist = [("threaded latest ne=%d" % k, dict(NE=k, DirectNotify=False), ts) for k, ts in groups.items()]
        reached, problems = amod.validate_groups(work, "ThreadLatestTrace", glist, timeout=1800)
        res.traces = len(runs)
        res.evaluations = sum(len(r["ev"]) for r in runs)
        for name, kind, detail in problems:
            if kind == "error":
                raise core.MachineryError("ThreadLatestTrace failed on %s: %s" % (name, detail[:800]))
            inv = kind.split()[-1]
            res.violations.append(dict(property="C14", engine="alatestthr", clause=inv,
                                       what="a recorded run of latest() in threaded operation violates %s (%s)" % (inv, name),
                                       detail=detail, signature=dict(kind="trace-invariant", clause=inv, node="latest-threaded")))
        nt = set()
        for r in runs:
            got = reached.get(r["id"])
            if got is None:
                continue
            if got[0] >= got[1]:
                res.accepted += 1
                if "h" in r["script"] and sum(1 for e in r["ev"] if e["ev"] == "Deliver") >= 2:
                    nt.add(r["script"])
            else:
                e = r["ev"][got[0] - 1]
                why = {"GaveUp": "input has stopped and the consumer is free, but the most recently pushed element did not come out within "
                                 "10 s (the forwarding coroutine was not woken)",
                       "End": "input has stopped and the consumer is free, but the most recently pushed element never came out "
                              "(the forwarding coroutine was not woken)",
                       "Deliver": "an element was handed on twice / out of order / without having been pushed",
                       "PushRaised": "the push raised"}.get(e["ev"], e["ev"])
                res.violations.append(dict(
                    property="C14", engine="alatestthr", clause=e["ev"],
                    what="threaded latest(), script %s: event #%d %s -- %s" % (r["script"], got[0], e, why),
                    signature=dict(kind="trace", node="latest-threaded", event=e["ev"]),
                    replay=dict(engine="alatestthr", script=r["script"], at=got[0], ev=r["ev"])))
        res.nontrivial = len(nt)
        res.rule = ("alatestthr: Stream() -> latest() -> consumer that can keep the loop thread busy; the producer thread pushes with "
                    "emit(x, asynchronous=True); scripts over {push, wait until it came out, hold the consumer, release it}; "
                    "non-trivial = the consumer was held and >= 2 deliveries")
        for r in runs[:2]:
            res.samples.append(dict(script=r["script"], ev=r["ev"]))
    finally:
        shutil.rmtree(work, ignore_errors=True)
    return res


def replay(v):
    """re-run the script of a violation on the current tree and validate the new trace"""
    import subprocess
    rp = v.get("replay") or {}
    code = ("import sys, json, asyncio; sys.path.insert(0, %r); sys.path.insert(0, %r); import threadlatest_driver as d; "
            "asyncio.set_event_loop(asyncio.new_event_loop()); print(json.dumps(d.run(list(%r))))"
            % (os.path.join(core.VERIF, "harness", "drivers"), os.path.join(core.VERIF, "harness"), rp.get("script", "pw")))
    p = subprocess.run([core.PY, "-c", code], capture_output=True, text=True, env=core.driver_env(), timeout=300)
    print(p.stdout[-2000:] or p.stderr[-2000:])
    return 0
