"""Engine 'aloop': LoopBinding.tla -- event-loop / mode binding of new nodes (C19)."""
import json
import os
import shutil
import sys

sys.path.insert(0, os.path.dirname(os.path.dirname(os.path.abspath(__file__))))
import core   # noqa: E402
import amod   # noqa: E402

INVS = ["OneLoopPerPipeline", "OneModePerPipeline", "Inherits", "InheritsLoopNeeded", "AsyncStaysOnCaller",
        "AsyncOnCallerWhenAlone", "AsyncNeverStartsBG", "FallbackBG", "ExplicitLoop", "ConflictRaises"]


def run(tier, seed, mutant=None, only_validate=False):
    work = os.path.join(core.WORK, "aloop_%s_%d" % (tier, os.getpid()))
    os.makedirs(work, exist_ok=True)
    res = core.EngineResult("aloop")
    try:
        if not only_validate:
            r, rec = amod.mc(res, work, "LoopBinding", "n%d" % (3 if tier == "quick" else 4),
                             dict(MaxNodes=3 if tier == "quick" else 4, ForceSync=False, WithRun=False, StarterLoop=False), INVS, workers=16, coverage=False,
                             timeout=3000)
            amod.spec_violation(res, r, rec, {}, "C19", "loopbinding")
            r, rec = amod.mc(res, work, "LoopBinding", "legacy", dict(MaxNodes=2, ForceSync=True, WithRun=False, StarterLoop=False), ["AsyncStaysOnCaller"], coverage=False)
            rec["expected_violation"] = "AsyncStaysOnCaller"
            rec["ok"] = r.violated == "AsyncStaysOnCaller"
            if r.violated != "AsyncStaysOnCaller":
                raise core.MachineryError("sensitivity run: forced asynchronous=False not refuted by AsyncStaysOnCaller")
            # where a started source runs: all starter contexts, two nodes
            r, rec = amod.mc(res, work, "LoopBinding", "run_n2", dict(MaxNodes=2, ForceSync=False, WithRun=True, StarterLoop=False),
                             INVS + ["RunsOnOwnLoop"], workers=16, coverage=False)
            amod.spec_violation(res, r, rec, {}, "C19", "loopbinding")
            r, rec = amod.mc(res, work, "LoopBinding", "starter_loop", dict(MaxNodes=1, ForceSync=False, WithRun=True, StarterLoop=True),
                             ["RunsOnOwnLoop"], coverage=False)
            rec["expected_violation"] = "RunsOnOwnLoop"
            rec["ok"] = r.violated == "RunsOnOwnLoop"
            if r.violated != "RunsOnOwnLoop":
                raise core.MachineryError("sensitivity run: scheduling on the starter's loop not refuted by RunsOnOwnLoop")
        out = os.path.join(work, "runs")
        args = ["--tier", tier, "--seed", seed, "--out", out]
        if mutant:
            args += ["--mutant", mutant]
        rc, so, se = core.run_driver("loop_driver.py", args)
        if rc != 0:
            raise core.MachineryError("loop driver failed: " + se[-1500:])
        with open(os.path.join(out, "runs.json")) as f:
            runs = json.load(f)
        traces = [{"id": i, "ev": ev} for i, ev in enumerate(runs, start=1)]
        shards = [traces[k::8] for k in range(8)]
        glist = [("loopbinding shard %d" % k, dict(MaxNodes=10, ForceSync=False, WithRun=False, StarterLoop=False), sh) for k, sh in enumerate(shards)]
        reached, problems = amod.validate_groups(work, "LoopBindingTrace", glist)
        res.traces = len(runs)
        res.evaluations = sum(len(r) for r in runs)
        for name, kind, detail in problems:
            if kind == "error":
                raise core.MachineryError("LoopBindingTrace failed on %s: %s" % (name, detail[:800]))
            inv = kind.split()[-1]
            res.violations.append(dict(property="C19", engine="aloop", clause=inv,
                                       what="a recorded construction sequence on the real classes violates %s" % inv,
                                       detail=detail, signature=dict(kind="trace-invariant", clause=inv)))
        nt = set()
        for t in traces:
            got = reached.get(t["id"])
            if got is None:
                continue
            if got[0] >= got[1]:
                res.accepted += 1
                if len(t["ev"]) >= 2 and any(e.get("la") or e.get("aa") or "run" in e for e in t["ev"]):
                    nt.add(json.dumps([(e["ups"], e["la"], e["aa"], e["ens"], e["cls"]) if "run" not in e else ("run", e["from"]) for e in t["ev"]]))
            else:
                e = t["ev"][got[0] - 1]
                if "run" in e:
                    c = t["ev"][e["run"] - 1]
                    res.violations.append(dict(
                        property="C19", engine="aloop", clause="Run",
                        what="%s(loop=%s, asynchronous=%s) bound to loop %s, start() called from a thread whose current loop is %s: its "
                             "callbacks ran on loop %s (0 = never ran; 1, 2 = explicit loops, 4 = background loop, 5 = the starter's own loop)"
                             % (c["cls"], c["la"], {0: None, 1: True, 2: False}[c["aa"]], c["loop"][-1], e["from"], e["on"]),
                        signature=dict(kind="trace", clause="Run", cls=c["cls"], aa=c["aa"], la=c["la"]),
                        replay=dict(engine="aloop", ops=t["ev"][:got[0]])))
                    continue
                res.violations.append(dict(
                    property="C19", engine="aloop", clause="Create",
                    what="constructor call #%d %s(upstreams=%s, loop=%s, asynchronous=%s, ensure_io_loop=%s): observed raised=%s "
                         "loops=%s modes=%s bg-requested=%s is not what LoopBinding allows" % (
                             got[0], e["cls"], e["ups"], e["la"], {0: None, 1: True, 2: False}[e["aa"]], e["ens"], e["raised"],
                             e["loop"], e["mode"], e["bgNew"]),
                    signature=dict(kind="trace", cls=e["cls"], aa=e["aa"], la=e["la"], ens=e["ens"]),
                    replay=dict(engine="aloop", ops=t["ev"][:got[0]])))
        res.nontrivial = len(nt)
        res.rule = ("aloop: all sequences of two generic constructor calls (upstream choice x explicit loop none/L1/L2 x asynchronous "
                    "None/True/False x ensure_io_loop), sampled sequences of three, and every loop-requiring node / source class alone and "
                    "on top of a generic node; sources (from_iterable, from_periodic) bound to a running explicit loop or the background loop "
                    "and started from {a thread without loop, the pipeline's own loop, another running loop}, recording the loop their "
                    "callbacks run on; non-trivial = >= 2 calls with an explicit argument; distinct by call sequence")
        for t in traces[:1] + traces[-1:]:
            res.samples.append(t["ev"])
    finally:
        shutil.rmtree(work, ignore_errors=True)
    return res


def canaries(tier, seed):
    r = run("quick", seed, mutant="no_inherit_loop", only_validate=True)
    return [dict(name="mutant:no_inherit_loop", detected=bool(r.violations), rejected=len(r.violations))]
