"""Engine 'amapasync': AsyncMapAsync.tla -- map_async(func, parallelism) (C02 order, C03 parallelism bound, C04/C05)."""
import os
import shutil
import sys

sys.path.insert(0, os.path.dirname(os.path.dirname(os.path.abspath(__file__))))
import core   # noqa: E402
import amod   # noqa: E402

INVS = ["InOrder", "Lossless", "Parallelism", "Bound", "CbSafe", "FailedNeverSignalled", "RcBalance", "RaisedOnlyRejected"]
INV_PROP = {"InOrder": "C02", "Lossless": "C02", "Parallelism": "C03", "Bound": "C03", "EmitsComplete": "C03", "AllDelivered": "C02",
            "CbSafe": "C04", "FailedNeverSignalled": "C04", "RcBalance": "C05", "RaisedOnlyRejected": "C16"}


def adapt(run):
    sync = run["cfg"]["cons"][0] == "sync"
    out, cur = [], None
    delivered = set()
    for ev in run["ev"]:
        k = ev["ev"]
        if k == "emit_call":
            cur = {"ev": "Arrive", "e": ev["e"], "fired": False}
            out.append(cur)
        elif k in ("emit_ret",):
            cur = None
        elif k == "release" and ev["site"].endswith("Stream._emit@source"):
            if cur is not None and ev["fired"] and cur["e"] == ev["tag"]:
                cur["fired"] = True
            elif ev["fired"]:
                out.append({"ev": "FiredElsewhere", "e": ev["tag"], "site": ev["site"]})
        elif k == "func_start":
            out.append({"ev": "FuncStart", "e": ev["e"]})
        elif k == "func_finish":
            out.append({"ev": "FuncFinish", "e": ev["e"]})
        elif k == "func_fail":
            out.append({"ev": "FuncFail", "e": ev["e"]})
        elif k == "func_reject":
            out.append({"ev": "FuncReject", "e": ev["e"]})
        elif k == "deliver":
            delivered.update(ev["x"])
            out.append({"ev": "CbEmit", "e": ev["x"][0] if len(ev["x"]) == 1 else -1, "md": ev["md"]})
        elif k == "cons_done" and not sync:
            out.append({"ev": "ConsumerDone"})
        elif k == "release" and ev["site"].endswith("work_callback") and ev["tag"] not in delivered:
            # the worker lets go of an element it never passed on (its function raised)
            out.append({"ev": "ReleaseFailed", "e": ev["tag"], "count": ev["count"], "fired": bool(ev["fired"])})
        elif k == "release" and ev["site"].endswith("work_callback"):
            out.append({"ev": "Release", "e": ev["tag"], "count": ev["count"], "fired": bool(ev["fired"])})
        elif k == "release" and ev["fired"]:
            out.append({"ev": "FiredElsewhere", "e": ev["tag"], "site": ev["site"]})
        elif k == "emit_done":
            out.append({"ev": "EmitDone" if not ev.get("exc") else "EmitRaised", "e": ev["e"]})
        elif k == "end":
            out.append({"ev": "End", "quiescent": bool(ev["quiescent"])})
        if "obs" in ev and k != "end":
            if "qsize" in ev["obs"]:                                 # (private state: compared only if readable)
                out.append({"ev": "ObsQ", "qsize": ev["obs"]["qsize"]})
            out.append({"ev": "ObsRc", "rc": ev["obs"]["rc"]})
    return out


def attribute(run, trace, idx):
    if idx > len(trace):
        return "C02", "end"
    ev = trace[idx - 1]
    k = ev["ev"]
    if k == "CbEmit" and ev.get("md") != [ev.get("e")]:
        return "C10", "element %s was delivered with metadata %s" % (ev.get("e"), ev.get("md"))
    if k == "CbEmit":
        return "C02", "result of element %s forwarded out of arrival order (or twice)" % ev.get("e")
    if k in ("EmitDone", "FuncStart"):
        # jobs are accepted (their function started, their emit completed) in arrival order; results are forwarded in the order of
        # acceptance: an element accepted while an earlier one is still waiting has overtaken it
        e = ev.get("e")
        arrived = [x["e"] for x in trace[:idx - 1] if x["ev"] == "Arrive"]
        accepted = {x["e"] for x in trace[:idx - 1] if x["ev"] in ("EmitDone", "FuncStart")}
        waiting = [a for a in arrived if a < e and a not in accepted]
        if waiting:
            return "C03", ("%s of element %s while the earlier element(s) %s had not been accepted yet: it has overtaken them"
                           % (k, e, waiting)), ["C02"]
    if k == "FuncReject":
        return "C16", "the function rejected element %s at the call: the specification expects the job to leave without a task" % ev.get("e")
    if k == "EmitRaised" and any(x["ev"] == "FuncReject" and x["e"] == ev.get("e") for x in trace[:idx - 1]):
        return "C16", "emit of the rejected element %s" % ev.get("e")
    if k in ("FuncStart", "ObsQ", "EmitDone", "EmitRaised"):
        return "C03", "%s: more functions started / jobs accepted than the parallelism allows, or an emit completed too early" % k
    if k in ("Release", "FiredElsewhere", "Arrive"):
        e = ev.get("e")
        if ev.get("fired") or k == "FiredElsewhere":
            if amod.premature(trace, idx, e, sync=run["cfg"]["cons"][0] == "sync"):
                return "C04", "completion callback of element %s fired before it had left the node (%s)" % (e, k)
        return "C05", "reference handling of element %s differs from the specification (%s)" % (e, k)
    if k == "ObsRc":
        return "C05", "reference counts differ from the specification"
    if k == "ReleaseFailed":
        return "C04", "element %s, whose function raised, was released by the worker (and so reported as done)" % ev.get("e")
    if k == "End":
        return "C02", "not everything was delivered at quiescence"
    return "C02", k


def run(tier, seed, mutant=None, only_validate=False):
    work = os.path.join(core.WORK, "amapasync_%s_%d" % (tier, os.getpid()))
    os.makedirs(work, exist_ok=True)
    res = core.EngineResult("amapasync")
    ne = 4
    try:
        if not only_validate:
            for p in ((1, 2) if tier == "quick" else (1, 2, 3)):
                for sync in (False, True):
                    # the design in which the awaited task counts against the limit: everything holds
                    r, rec = amod.mc(res, work, "AsyncMapAsync", "ideal_p%d_sync%d" % (p, sync),
                                     dict(NE=ne, P=p, SyncCons=sync, MaxOut=ne, Legacy=False, EarlySlot=False, Faults=True, ReleaseFailed=False), INVS,
                                     ["EmitsComplete", "AllDelivered"], spec="FairSpec", coverage=False)
                    amod.spec_violation(res, r, rec, INV_PROP, "C02", "map_async")
                    # the tree (slot freed by get()): everything but the two parallelism bounds
                    r, rec = amod.mc(res, work, "AsyncMapAsync", "tree_p%d_sync%d" % (p, sync),
                                     dict(NE=ne, P=p, SyncCons=sync, MaxOut=ne, Legacy=False, EarlySlot=True, Faults=True, ReleaseFailed=False),
                                     [i for i in INVS if i not in ("Parallelism", "Bound")], ["EmitsComplete", "AllDelivered"],
                                     spec="FairSpec", coverage=False)
                    amod.spec_violation(res, r, rec, INV_PROP, "C02", "map_async")
            for inv, leg in (("InOrder", True), ("CbSafe", True), ("Parallelism", False)):
                r, rec = amod.mc(res, work, "AsyncMapAsync", ("legacy_" if leg else "tree_") + inv,
                                 dict(NE=3, P=1, SyncCons=False, MaxOut=3, Legacy=leg, EarlySlot=True, Faults=False, ReleaseFailed=False), [inv], coverage=False)
                rec["expected_violation"] = inv
                rec["ok"] = r.violated == inv
                if r.violated != inv:
                    raise core.MachineryError("sensitivity run: pre-fix map_async not refuted by " + inv)
            # sensitivity: the pinned tree released -- and so reported as done -- elements whose function raised (F23)
            r, rec = amod.mc(res, work, "AsyncMapAsync", "legacy_release_failed",
                             dict(NE=2, P=1, SyncCons=False, MaxOut=2, Legacy=False, EarlySlot=True, Faults=True, ReleaseFailed=True),
                             ["FailedNeverSignalled"], coverage=False)
            rec["expected_violation"] = "FailedNeverSignalled"
            rec["ok"] = r.violated == "FailedNeverSignalled"
            if r.violated != "FailedNeverSignalled":
                raise core.MachineryError("sensitivity run: releasing failed elements not refuted by FailedNeverSignalled")
        cfgs = [{"kind": "map_async", "parallelism": p, "cons": [c], "max_elems": ne}
                for p in ((1, 2) if tier == "quick" else (1, 2, 3)) for c in ("future", "sync")]
        # function evaluations may raise (logged and dropped: stop_on_exception=False)
        cfgs += [{"kind": "map_async", "parallelism": 2, "cons": ["future"], "max_elems": ne, "falsy": {"none": 2, "zero": 3}}]
        cfgs += [{"kind": "map_async", "parallelism": 2, "cons": ["future"], "max_elems": ne, "feeder": "plain"}]
        # callbacks one at a time: emissions and function completions fall between two callbacks of one loop iteration
        import itertools
        import random as _random
        _rng = _random.Random(seed)
        for p in (1, 2):
            # a saturated node, then every sequence of {emit, finish the oldest function, run one callback}
            pre = "e1 " * (p + 1) + "s s s s "
            L = 5 if tier == "quick" else 6
            fine = [pre + " ".join(q) for q in itertools.product(("e1", "f", "t"), repeat=L)]
            fine += [pre + " ".join(_rng.choice(("e1", "f", "t", "t")) for _ in range(_rng.randint(L + 1, L + 4)))
                     for _ in range(150 if tier == "quick" else 1500)]
            cfgs.append({"kind": "map_async", "parallelism": p, "cons": ["sync"], "max_elems": ne + 1, "fine": True, "schedules": fine})
        cfgs += [{"kind": "map_async", "parallelism": p, "cons": ["future"], "max_elems": ne, "faults": True}
                 for p in ((1, 2) if tier == "quick" else (1, 2, 3))]
        # a plain callable that may raise when it is called (before any awaitable exists)
        cfgs += [{"kind": "map_async", "parallelism": p, "cons": ["future"], "max_elems": ne, "faults": True, "reject": True} for p in (1, 2)]
        amod.node_engine(res, work, node="map_async", trace_module="AsyncMapAsyncTrace", cfgs=cfgs,
                         consts_of=lambda c: dict(NE=c["max_elems"], P=c["parallelism"], SyncCons=c["cons"][0] == "sync", MaxOut=c["max_elems"], Legacy=False, EarlySlot=True, Faults=True, ReleaseFailed=False),
                         adapt=adapt, attribute=attribute, seed=seed, depth=8 if tier == "quick" else 10,
                         limit=250 if tier == "quick" else 2500, nrandom=250 if tier == "quick" else 2500, maxlen=18,
                         default_prop="C02", mutant=mutant,
                         nontrivial=lambda r, t: sum(1 for x in t if x["ev"] == "FuncFinish") >= 2)
        res.rule = ("amapasync: map_async(parallelism 1..3) x consumer style x schedules over {arrive, finish oldest / newest running function, "
                    "finish consumer, fail a running function, one loop iteration}; non-trivial = >= 2 function completions chosen by the driver")
    finally:
        shutil.rmtree(work, ignore_errors=True)
    return res


TRACE_MODULE = "AsyncMapAsyncTrace"
consts_of = lambda c: dict(NE=c['max_elems'], P=c['parallelism'], SyncCons=c['cons'][0] == 'sync', MaxOut=c['max_elems'], Legacy=False, EarlySlot=True, Faults=True, ReleaseFailed=False)


def replay(v):
    import sys as _s
    return amod.replay_node(_s.modules[__name__], v)


def canaries(tier, seed):
    r = run("quick", seed, mutant="map_async_no_lock", only_validate=True)
    n = [v for v in r.violations if v["signature"].get("kind") not in ("premature-callback", "parallelism-exceeded")]
    return [dict(name="mutant:map_async_no_lock", detected=bool(n), rejected=len(n))]
