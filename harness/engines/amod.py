"""Shared machinery of the asynchronous-node engines: exhaustive TLC runs of a node module,
the real-node driver, adapters (event log -> module-level trace), batch trace validation."""
import concurrent.futures as cf
import json
import os
import re
import shutil
import sys

sys.path.insert(0, os.path.dirname(os.path.dirname(os.path.abspath(__file__))))
import core   # noqa: E402
import tlc    # noqa: E402

RE_REACHED = re.compile(r'<<"REACHED", (\d+), (\d+), (\d+)>>')


def tla_const(v):
    if isinstance(v, bool):
        return "TRUE" if v else "FALSE"
    if isinstance(v, str):
        return '"%s"' % v
    return str(v)


def mc(res, work, module, name, consts, invariants, properties=(), spec="Spec", timeout=900, constraint=None,
       extra_defs="", workers=8):
    d = os.path.join(work, "mc_%s_%s" % (module, name))
    os.makedirs(d, exist_ok=True)
    mod = os.path.join(d, "MC.tla")
    with open(mod, "w") as f:
        f.write("---- MODULE MC ----\nEXTENDS %s\n%s\n====\n" % (module, extra_defs))
    cfg = os.path.join(d, "MC.cfg")
    with open(cfg, "w") as f:
        f.write("SPECIFICATION %s\nCONSTANTS\n" % spec)
        for k, v in consts.items():
            f.write("  %s = %s\n" % (k, tla_const(v)))
        for i in invariants:
            f.write("INVARIANT %s\n" % i)
        for p in properties:
            f.write("PROPERTY %s\n" % p)
        if constraint:
            f.write("CONSTRAINT %s\n" % constraint)
        f.write("CHECK_DEADLOCK FALSE\n")
    r = tlc.run(mod, cfg, d, workers=workers, timeout=timeout, coverage=True, heap="8g")
    rec = dict(name="%s/%s" % (module, name), states=r.distinct, transitions=r.generated, ok=r.ok,
               violated=r.violated, wall_s=round(r.wall, 1), constants=consts, spec=spec,
               invariants=list(invariants), properties=list(properties),
               action_coverage={k: v[1] for k, v in r.coverage.items()})
    res.tlc_runs.append(rec)
    shutil.rmtree(d, ignore_errors=True)
    return r, rec


def drive(work, cfgs, seed, depth, limit, nrandom, maxlen=14, mutant=None, tag="runs"):
    out = os.path.join(work, tag)
    shutil.rmtree(out, ignore_errors=True)
    args = ["--cfgs", json.dumps(cfgs), "--seed", seed, "--out", out, "--depth", depth, "--limit", limit,
            "--random", nrandom, "--maxlen", maxlen]
    if mutant:
        args += ["--mutant", mutant]
    rc, so, se = core.run_driver("async_driver.py", args)
    if rc != 0:
        raise core.MachineryError("async driver failed: " + se[-1500:])
    with open(os.path.join(out, "runs.json")) as f:
        runs = json.load(f)
    shutil.rmtree(out, ignore_errors=True)
    return runs


def validate_groups(work, trace_module, groups, invariant="TraceInv", timeout=900):
    """groups: list of (name, consts dict, traces list[{id, ev}]).  One TLC run per group.
    Returns {trace id: (reached, total)} and a list of (group, violated invariant / error)."""
    d = os.path.join(work, "tv_" + trace_module)
    os.makedirs(d, exist_ok=True)
    jobs = []
    for gi, (name, consts, traces) in enumerate(groups):
        if not traces:
            continue
        tf = os.path.join(d, "g%d.json" % gi)
        with open(tf, "w") as f:
            json.dump(traces, f, separators=(",", ":"))
        cfg = os.path.join(d, "g%d.cfg" % gi)
        with open(cfg, "w") as f:
            f.write("SPECIFICATION TraceSpec\nCONSTANTS\n")
            for k, v in consts.items():
                f.write("  %s = %s\n" % (k, tla_const(v)))
            if invariant:
                f.write("INVARIANT %s\n" % invariant)
            f.write("POSTCONDITION Report\nCHECK_DEADLOCK FALSE\n")
        jobs.append((name, tf, cfg))

    def one(job):
        name, tf, cfg = job
        r = tlc.run(os.path.join(tlc.SPECS, trace_module + ".tla"), cfg, d, workers=1, timeout=timeout,
                    env_extra={"TRACE_FILE": tf}, heap="3g")
        return name, r
    reached, problems = {}, []
    with cf.ThreadPoolExecutor(8) as ex:
        for name, r in ex.map(one, jobs):
            for a, b, c in RE_REACHED.findall(r.out):
                reached[int(a)] = (int(b), int(c))
            if r.violated:
                m = re.search(r"tid = (\d+)", r.out[r.out.find("Error:"):])
                problems.append((name, "invariant " + r.violated, tlc.counterexample(r.out, 2500)))
            elif r.error:
                problems.append((name, "error", r.error[:1500]))
    shutil.rmtree(d, ignore_errors=True)
    return reached, problems
