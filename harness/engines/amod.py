"""Shared machinery of the asynchronous-node engines: exhaustive TLC runs of a node module,
the real-node driver, adapters (event log -> module-level trace), batch trace validation."""
import concurrent.futures as cf
import json
import os
import re
import shutil
import sys

sys.path.insert(0, os.path.dirname(os.path.dirname(os.path.abspath(__file__))))
import core   # noqa: E402
import tlc    # noqa: E402

RE_REACHED = re.compile(r'<<"REACHED", (\d+), (\d+), (\d+)>>')
RE_UNSAFE = re.compile(r'<<"UNSAFE", (\d+), (\d+)>>')
RE_OVER = re.compile(r'<<"OVERLIMIT", (\d+), (\d+)>>')


def tla_const(v):
    if isinstance(v, (set, frozenset, list, tuple)) and not isinstance(v, str):
        return "{" + ", ".join(tla_const(x) for x in sorted(v)) + "}"
    if isinstance(v, bool):
        return "TRUE" if v else "FALSE"
    if isinstance(v, str):
        return '"%s"' % v
    return str(v)


def const_line(k, v):
    """'<-Name' substitutes an operator defined in the (MC / trace) module for the constant"""
    if isinstance(v, str) and v.startswith("<-"):
        return "  %s <- %s\n" % (k, v[2:])
    return "  %s = %s\n" % (k, tla_const(v))


def mc(res, work, module, name, consts, invariants, properties=(), spec="Spec", timeout=1800, constraint=None,
       extra_defs="", workers=8, coverage=True):
    d = os.path.join(work, "mc_%s_%s" % (module, name))
    os.makedirs(d, exist_ok=True)
    mod = os.path.join(d, "MC.tla")
    with open(mod, "w") as f:
        f.write("---- MODULE MC ----\nEXTENDS %s\n%s\n====\n" % (module, extra_defs))
    cfg = os.path.join(d, "MC.cfg")
    with open(cfg, "w") as f:
        f.write("SPECIFICATION %s\nCONSTANTS\n" % spec)
        for k, v in consts.items():
            f.write(const_line(k, v))
        for i in invariants:
            f.write("INVARIANT %s\n" % i)
        for p in properties:
            f.write("PROPERTY %s\n" % p)
        if constraint:
            f.write("CONSTRAINT %s\n" % constraint)
        f.write("CHECK_DEADLOCK FALSE\n")
    r = tlc.run(mod, cfg, d, workers=workers, timeout=timeout, coverage=coverage, heap="8g")
    rec = dict(name="%s/%s" % (module, name), states=r.distinct, transitions=r.generated, ok=r.ok,
               violated=r.violated, wall_s=round(r.wall, 1), constants=consts, spec=spec,
               invariants=list(invariants), properties=list(properties),
               action_coverage={k: v[1] for k, v in r.coverage.items()})
    res.tlc_runs.append(rec)
    shutil.rmtree(d, ignore_errors=True)
    return r, rec


def drive(work, cfgs, seed, depth, limit, nrandom, maxlen=14, mutant=None, tag="runs"):
    out = os.path.join(work, tag)
    shutil.rmtree(out, ignore_errors=True)
    os.makedirs(work, exist_ok=True)
    cf = os.path.join(work, tag + "_cfgs.json")        # (a file: configurations that name their schedules exceed the argv limit)
    with open(cf, "w") as f:
        json.dump(cfgs, f)
    args = ["--cfgs", "@" + cf, "--seed", seed, "--out", out, "--depth", depth, "--limit", limit,
            "--random", nrandom, "--maxlen", maxlen]
    if mutant:
        args += ["--mutant", mutant]
    rc, so, se = core.run_driver("async_driver.py", args)
    if rc != 0:
        raise core.MachineryError("async driver failed: " + se[-1500:])
    with open(os.path.join(out, "runs.json")) as f:
        runs = json.load(f)
    shutil.rmtree(out, ignore_errors=True)
    return runs


def validate_groups(work, trace_module, groups, invariant="TraceInv", timeout=900):
    """groups: list of (name, consts dict, traces list[{id, ev}]).  One TLC run per group.
    Returns {trace id: (reached, total)} and a list of (group, violated invariant / error)."""
    d = os.path.join(work, "tv_" + trace_module)
    os.makedirs(d, exist_ok=True)
    jobs = []
    for gi, (name, consts, traces) in enumerate(groups):
        if not traces:
            continue
        tf = os.path.join(d, "g%d.json" % gi)
        with open(tf, "w") as f:
            json.dump(traces, f, separators=(",", ":"))
        cfg = os.path.join(d, "g%d.cfg" % gi)
        with open(cfg, "w") as f:
            f.write("SPECIFICATION TraceSpec\nCONSTANTS\n")
            for k, v in consts.items():
                f.write(const_line(k, v))
            if invariant:
                f.write("INVARIANT %s\n" % invariant)
            f.write("POSTCONDITION Report\nCHECK_DEADLOCK FALSE\n")
        jobs.append((name, tf, cfg))

    def one(job):
        name, tf, cfg = job
        r = tlc.run(os.path.join(tlc.SPECS, trace_module + ".tla"), cfg, d, workers=1, timeout=timeout,
                    env_extra={"TRACE_FILE": tf}, heap="3g")
        return name, r
    reached, problems = {}, []
    unsafe = {}
    over = {}
    with cf.ThreadPoolExecutor(8) as ex:
        for name, r in ex.map(one, jobs):
            for a, b, c in RE_REACHED.findall(r.out):
                reached[int(a)] = (int(b), int(c))
            for a, b in RE_UNSAFE.findall(r.out):
                unsafe.setdefault(int(a), set()).add(int(b))
            for a, b in RE_OVER.findall(r.out):
                over.setdefault(int(a), set()).add(int(b))
            if r.violated:
                m = re.search(r"tid = (\d+)", r.out[r.out.find("Error:"):])
                problems.append((name, "invariant " + r.violated, tlc.counterexample(r.out, 2500)))
            elif r.error:
                problems.append((name, "error", r.error[:1500]))
    shutil.rmtree(d, ignore_errors=True)
    validate_groups.unsafe = unsafe
    validate_groups.over = over
    return reached, problems


def leaked(r):
    """elements whose counter is not zero at the end of a run although the node (as far as its buffers can be read)
    does not hold them any more -- or whose counter is negative"""
    last = None
    for ev in r["ev"]:
        if "obs" in ev and "rc" in ev["obs"]:
            last = ev["obs"]
    if last is None:
        return []

    def ints(x):
        if isinstance(x, (list, tuple)):
            out = []
            for y in x:
                out += ints(y)
            return out
        return [x] if isinstance(x, int) else []
    held = set()
    for k in ("q", "buf", "bufs", "slot"):
        held.update(ints(last.get(k, [])))
    return [e for e, c in enumerate(last["rc"], start=1) if c < 0 or (c > 0 and e not in held)]


def symptoms(r):
    """Properties whose violation is visible in the raw run as a whole, wherever the trace happened to be rejected:
    a lossless node that has not delivered exactly what arrived, in order (C02; C13 for delay / rate_limit, C08 for the
    window nodes)."""
    cfg = r["cfg"]
    k = cfg.get("kind")
    if k == "partition":
        # a batch larger than n, whatever else happened
        if any(e["ev"] == "deliver" and len(e["x"]) > cfg["n"] for e in r["ev"]):
            return ["C08", "C02"]
    if k == "latest":
        # when everything has come to rest the newest element received must have been passed on
        end = [e for e in r["ev"] if e["ev"] == "end"]
        arrived = [e["e"] for e in r["ev"] if e["ev"] == "emit_call"]
        got = [x for e in r["ev"] if e["ev"] == "deliver" for x in e["x"]]
        if end and end[-1].get("quiescent", True) and arrived and arrived[-1] not in got:
            return ["C14"]
        return []
    if cfg.get("faults") or k not in ("buffer", "delay", "rate_limit", "map_async", "partition", "timed_window"):
        return []
    end = [e for e in r["ev"] if e["ev"] == "end"]
    if not end or not end[-1].get("quiescent", True):
        return []
    arrived = [e["e"] for e in r["ev"] if e["ev"] == "emit_call"]
    got = []
    for e in r["ev"]:
        if e["ev"] == "deliver":
            got += list(e["x"])
    held = []
    obs = end[-1].get("obs") or {}

    def ints(x):
        if isinstance(x, (list, tuple)):
            out = []
            for y in x:
                out += ints(y)
            return out
        return [x] if isinstance(x, int) else []
    if k in ("partition", "timed_window"):
        held = ints([v for _, v in obs.get("buf", [])] if k == "partition" else obs.get("buf", []))
    if k == "partition" and cfg.get("mod"):
        ok = sorted(got + held) == sorted(arrived)           # several keys: order is per key only
    else:
        ok = got + [h for h in held if h not in got] == arrived or sorted(got + held) == sorted(arrived) and got == sorted(got)
    if ok:
        return []
    return ["C02"] + (["C13"] if k in ("delay", "rate_limit") else []) + (["C08"] if k in ("partition", "timed_window") else [])


PRIVATE_OBS = ("ObsQ", "ObsBuf", "ObsTimers", "ObsSlot", "ObsNext", "ObsBufs")


def second_pass(work, trace_module, consts_of, traces, reached, unsafe, over, group_key=None):
    """Observations of private attributes are optional evidence: a trace that the specification rejects *at such an
    observation* is validated again without them.  If its behaviour (deliveries, emit completions, counters, timers) is
    then accepted, the code merely represents its state differently -- nothing to report; otherwise the behavioural event
    at which it is rejected is what gets reported (and attributed)."""
    redo = [i for i, (r, t) in traces.items()
            if i in reached and reached[i][0] < reached[i][1] and reached[i][0] <= len(t) and t[reached[i][0] - 1]["ev"] in PRIVATE_OBS]
    if not redo:
        return 0
    groups = {}
    for i in redo:
        r, t = traces[i]
        t2 = [e for e in t if e["ev"] not in PRIVATE_OBS]
        traces[i] = (r, t2)
        key = group_key(r["cfg"]) if group_key else json.dumps(r["cfg"], sort_keys=True)
        groups.setdefault(key, (r["cfg"], []))[1].append({"id": i, "ev": t2})
    glist = [("second pass %s" % json.dumps(c, sort_keys=True), consts_of(c), ts) for c, ts in groups.values()]
    reached2, problems2 = validate_groups(work, trace_module, glist)
    for name, kind, detail in problems2:
        if kind == "error":
            raise core.MachineryError("%s (second pass) failed on %s: %s" % (trace_module, name, detail[:800]))
    u2, o2 = getattr(validate_groups, "unsafe", {}), getattr(validate_groups, "over", {})
    for i in redo:
        if i in reached2:
            reached[i] = reached2[i]
        unsafe.pop(i, None)
        over.pop(i, None)
        if i in u2:
            unsafe[i] = u2[i]
        if i in o2:
            over[i] = o2[i]
    validate_groups.unsafe, validate_groups.over = unsafe, over
    return len(redo)


def node_engine(res, work, *, node, trace_module, cfgs, consts_of, adapt, attribute, seed, depth, limit, nrandom,
                default_prop, mutant=None, maxlen=14, nontrivial=None, group_key=None):
    """drive the real node, adapt the logs, validate against the trace module, fill res"""
    runs = drive(work, cfgs, seed, depth=depth, limit=limit, nrandom=nrandom, mutant=mutant, maxlen=maxlen)
    groups, traces = {}, {}
    for i, r in enumerate(runs, start=1):
        t = adapt(r)
        if r["cfg"].get("feeder") == "plain":
            # the caller drops the awaitables: there is no emit completion to speak of
            t = [e for e in t if e["ev"] not in ("EmitDone", "EmitRaised")]
        for ev in r["ev"]:
            if ev["ev"] == "mutated":      # no specification has such an event: the trace is rejected there
                num = lambda xs: [x if isinstance(x, int) and not isinstance(x, bool) else -1 for x in xs]     # (JSON null is not a TLA+ value)
                t.insert(max(len(t) - 1, 0), {"ev": "Mutated", "d": ev["d"], "was": num(ev["was"]), "now": num(ev["now"])})
        key = group_key(r["cfg"]) if group_key else json.dumps(r["cfg"], sort_keys=True)
        groups.setdefault(key, (r["cfg"], []))[1].append({"id": i, "ev": t})
        traces[i] = (r, t)
    glist = [("%s %s" % (node, json.dumps(c, sort_keys=True)), consts_of(c), ts) for c, ts in groups.values()]
    reached, problems = validate_groups(work, trace_module, glist)
    res.traces += len(runs)
    res.evaluations += sum(len(t[1]) for t in traces.values())
    nredo = second_pass(work, trace_module, consts_of, traces, reached, dict(getattr(validate_groups, "unsafe", {})),
                        dict(getattr(validate_groups, "over", {})), group_key=group_key)
    if nredo:
        res.notes.append("%d traces were rejected at an observation of private state and validated again on behaviour alone" % nredo)
    for name, kind, detail in problems:
        if kind == "error":
            raise core.MachineryError("%s failed on %s: %s" % (trace_module, name, detail[:800]))
        inv = kind.split()[-1]
        res.violations.append(dict(property=default_prop, engine=res.name, clause=inv,
                                   what="a recorded run of the real %s node violates %s (%s)" % (node, inv, name),
                                   detail=detail, signature=dict(kind="trace-invariant", clause=inv, node=node)))
    nt = set()
    unsafe = getattr(validate_groups, "unsafe", {})
    for i, (r, t) in traces.items():
        got = reached.get(i)
        if got is None:
            continue
        # CbSafe (C04) became false at these events of an otherwise conforming prefix
        for lidx in sorted(unsafe.get(i, ())):
            if lidx < got[0] or got[0] >= got[1]:
                evt = t[lidx - 1]
                res.violations.append(dict(
                    property="C04", engine=res.name, clause="CbSafe",
                    what="%s %s schedule '%s': at event #%d %s the completion callback of an element fires while it is "
                         "still in flight" % (node, json.dumps(r["cfg"], sort_keys=True), " ".join(r["schedule"]), lidx, evt),
                    signature=dict(kind="premature-callback", node=node, event=evt["ev"]),
                    replay=dict(engine=res.name, cfg=r["cfg"], schedule=r["schedule"], at=lidx, trace=t[:lidx + 1])))
        for lidx in sorted(getattr(validate_groups, "over", {}).get(i, ())):
            if lidx < got[0] or got[0] >= got[1]:
                res.violations.append(dict(
                    property="C03", engine=res.name, clause="Parallelism",
                    what="%s %s schedule '%s': at event #%d more functions are being evaluated than the documented parallelism"
                         % (node, json.dumps(r["cfg"], sort_keys=True), " ".join(r["schedule"]), lidx),
                    signature=dict(kind="parallelism-exceeded", node=node),
                    replay=dict(engine=res.name, cfg=r["cfg"], schedule=r["schedule"], at=lidx, trace=t[:lidx + 1])))
        if got[0] >= got[1]:
            res.accepted += 1
            if nontrivial is None or nontrivial(r, t):
                nt.add(json.dumps(r["cfg"], sort_keys=True) + " ".join(r["schedule"]))
        else:
            att = attribute(r, t, got[0])
            prop, why, extra = att if len(att) == 3 else (att[0], att[1], [])
            evt = t[got[0] - 1] if got[0] <= len(t) else {"ev": "end"}
            if evt["ev"] == "Mutated":
                prop = "C08" if node in ("timed_window", "partition") else "C02"
                why = ("the batch delivered as #%s with elements %s was changed after it had been handed to the consumer (now %s): "
                       "elements end up in a batch they do not belong to" % (evt["d"], evt["was"], evt["now"]))
            # a counter sequence that differs from the specification's is always a balance problem (C05); it is a
            # safety problem (C04) in addition when the callback came too early
            also = (["C05"] if prop == "C04" else []) + [x for x in extra if x != prop]
            if prop == "C08" and evt["ev"] in ("End", "ObsTimers", "Flush", "Tick"):
                also = ["C02"]       # an element that is never (or twice) emitted is a loss / duplication as well
            for x in symptoms(r):
                if x != prop and x not in also:
                    also = also + [x]
                    why += "; over the whole run the node did not deliver exactly what arrived, in order" if x == "C02" else ""
            if prop not in ("C05", "C04") and "C05" not in also:
                lk = leaked(r)
                if lk:
                    also = also + ["C05"]
                    why += "; at the end the counters of elements %s are not zero although nothing holds them" % lk
            if evt["ev"] == "End" and prop != "C03":
                # not quiescent at the end although the driver finished everything it could: if a producer's emit is
                # among what never completed, this is a stuck emit (lost wake-up / deadlock) as well
                called = {x["e"] for x in r["ev"] if x["ev"] == "emit_call"}
                done = {x["e"] for x in r["ev"] if x["ev"] in ("emit_done", "emit_raised")}
                if called - done:
                    also = also + ["C03"]
                    why += "; the emits of elements %s never completed" % sorted(called - done)
            res.violations.append(dict(
                property=prop, also=also, engine=res.name, clause=evt["ev"],
                what="%s %s schedule '%s': event #%d %s -- %s" % (
                    node, json.dumps(r["cfg"], sort_keys=True), " ".join(r["schedule"]), got[0], evt, why),
                signature=dict(kind="trace", node=node, event=evt["ev"]),
                replay=dict(engine=res.name, cfg=r["cfg"], schedule=r["schedule"], at=got[0], trace=t[:got[0] + 2])))
    res.nontrivial += len(nt)
    for r in runs[:2]:
        res.samples.append(dict(cfg=r["cfg"], schedule=" ".join(r["schedule"]),
                                deliveries=[[e["x"], e["t"]] for e in r["ev"] if e["ev"] == "deliver"]))
    return runs


def incomplete(r, rec):
    """a design-model run that refuted nothing and did not finish (time-out on a loaded machine): the property held on everything
    explored, which is what is claimed -- the evidence records the run as incomplete.  Any other TLC failure is a failure of
    the machinery, never a verdict."""
    if r.ok or r.violated:
        return False
    if (r.error or "").startswith("timeout"):
        rec["incomplete"] = r.error
        rec["ok"] = None
        return True
    raise core.MachineryError("TLC failed on %s: %s" % (rec.get("name"), (r.error or "")[:800]))


def spec_violation(res, r, rec, inv_prop, default_prop, node):
    if not r.ok and not incomplete(r, rec):
        res.violations.append(dict(property=inv_prop.get(r.violated or "", default_prop), engine=res.name,
                                   clause=r.violated or "tlc-error",
                                   what="%s violates %s for %s" % (rec["name"], r.violated or (r.error or "")[:200], rec["constants"]),
                                   detail=tlc.counterexample(r.out, 2500),
                                   signature=dict(kind="spec", clause=r.violated or "error", node=node)))


def premature(trace, idx, e, deliver_ev="CbEmit", done_ev="ConsumerDone", sync=False):
    """was element e's consumer still unfinished (or not even started) just before event idx?"""
    started = finished = False
    for x in trace[:idx - 1]:
        if x["ev"] == deliver_ev and (x.get("e") == e or e in (x.get("es") or [])):
            started = True
            finished = sync
        if x["ev"] == done_ev and started and (x.get("e") in (None, e) or e in (x.get("es") or [])):
            finished = True
    return not (started and finished)


def seconds(interval):
    """what an interval given as a number or as a pandas-style string means, computed independently of streamz"""
    if isinstance(interval, (int, float)):
        return int(interval)
    units = {"ms": 0.001, "s": 1, "sec": 1, "min": 60, "h": 3600, "d": 86400, "day": 86400, "days": 86400, "w": 604800}
    import re as _re
    from fractions import Fraction
    # pandas-style: one or more <number><unit> components, numbers may be fractional ("1.0s", "1min 30s", "0.05min")
    parts = _re.findall(r"(\d+(?:\.\d+)?)\s*([a-zA-Z]+)", interval)
    if not parts or _re.sub(r"(\d+(?:\.\d+)?)\s*([a-zA-Z]+)|\s+", "", interval):
        raise ValueError("interval string outside the harness's grammar: %r" % (interval,))
    total = sum(Fraction(n) * Fraction(str(units[u.lower()])) for n, u in parts)
    if total.denominator != 1:
        raise ValueError("interval is not a whole number of seconds: %r" % (interval,))
    return int(total)


def replay_node(engine, v, driver="async_driver.py"):
    """re-execute exactly the scenario of a violation on the current tree and validate it again"""
    rp = v.get("replay") or {}
    cfg, sched = rp.get("cfg"), rp.get("schedule")
    if cfg is None or sched is None:
        print("this violation carries no replayable scenario:", json.dumps(rp)[:300])
        return 2
    work = os.path.join(core.WORK, "replay_%d" % os.getpid())
    os.makedirs(work, exist_ok=True)
    try:
        ex = os.path.join(work, "explicit.json")
        with open(ex, "w") as f:
            json.dump([[cfg, sched]], f)
        out = os.path.join(work, "runs")
        rc, so, se = core.run_driver(driver, ["--cfgs", "[]", "--out", out, "--explicit", ex, "--limit", 0, "--random", 0])
        if rc != 0:
            print("driver failed:", se[-800:])
            return 2
        with open(os.path.join(out, "runs.json")) as f:
            runs = json.load(f)
        r = runs[0]
        t = engine.adapt(r)
        reached, problems = validate_groups(work, engine.TRACE_MODULE, [("replay", engine.consts_of(cfg), [{"id": 1, "ev": t}])])
        got = reached.get(1)
        for name, kind, detail in problems:
            print("REPLAY: %s %s" % (kind, detail[:600]))
        if got is None or got[0] < got[1] or problems:
            at = got[0] if got else 0
            print("REPLAY: schedule '%s' on %s is rejected at event #%s: %s" % (" ".join(sched), json.dumps(cfg), at,
                                                                                  t[at - 1] if got and 0 < at <= len(t) else "?"))
            for e in t[max(0, at - 6):at + 1]:
                print("   ", e)
            print("VIOLATION property=%s replay=%s" % (v.get("property"), "(replayed)"))
            return 1
        print("REPLAY: schedule '%s' on %s is accepted by %s on the current tree (%d events)" % (
            " ".join(sched), json.dumps(cfg), engine.TRACE_MODULE, len(t)))
        return 0
    finally:
        shutil.rmtree(work, ignore_errors=True)
