"""Engine 'apartition': AsyncPartition.tla -- partition(n, timeout, key) (C08; parts of C02-C05)."""
import os
import shutil
import sys

sys.path.insert(0, os.path.dirname(os.path.dirname(os.path.abspath(__file__))))
import core   # noqa: E402
import amod   # noqa: E402

INVS = ["TypeOK", "Conservation", "OneKeyPerBatch", "SizeBound", "NoEmptyBatch", "PartialOnlyOnTimeout", "Deadline",
        "NoOverdue", "TimerSane", "ArmedWhenNeeded", "CbSafe", "RcBalance"]
INV_PROP = {"CbSafe": "C04", "RcBalance": "C05"}


def adapt(run):
    cfg = run["cfg"]
    sync = cfg["cons"][0] == "sync"
    mod = cfg.get("mod") or 1
    out, d2es, rel = [], {}, None
    for ev in run["ev"]:
        k = ev["ev"]
        if not (k == "release" and ev["site"].endswith("partition._flush")):
            rel = None
        if k == "emit_call":
            out.append({"ev": "Arrive", "e": ev["e"]})
        elif k == "emit_raised":
            out.append({"ev": "EmitRaised", "e": ev["e"], "exc": ev.get("exc")})
        elif k == "release" and ev["site"].endswith("Stream._emit@source"):
            out.append({"ev": "UpRelease", "e": ev["tag"], "count": ev["count"], "fired": bool(ev["fired"])})
        elif k == "deliver":
            d2es[ev["d"]] = list(ev["x"])
            out.append({"ev": "Flush", "es": list(ev["x"]), "md": ev["md"]})
        elif k == "cons_done" and not sync:
            out.append({"ev": "ConsumerDone", "es": d2es.get(ev["d"], [])})
        elif k == "cons_fail":
            out.append({"ev": "ConsumerFail", "es": d2es.get(ev["d"], [])})
        elif k == "release" and ev["site"].endswith("partition._flush"):
            batch_of = next((tuple(es) for es in d2es.values() if ev["tag"] in es), None)
            if rel is None or rel.get("_b") != batch_of:
                rel = {"ev": "FlushRelease", "es": [], "fired": [], "_b": batch_of}
                out.append(rel)
            rel["es"].append(ev["tag"])
            if ev["fired"]:
                rel["fired"].append(ev["tag"])
        elif k == "release" and ev["fired"]:
            out.append({"ev": "FiredElsewhere", "e": ev["tag"], "site": ev["site"]})
        elif k == "emit_done":
            if ev.get("exc"):
                out.append({"ev": "EmitRaised", "e": ev["e"], "exc": ev["exc"]})
            else:
                out.append({"ev": "EmitDone", "e": ev["e"]})
        elif k == "time":
            out.append({"ev": "Advance", "now": int(ev["now"]) if float(ev["now"]).is_integer() else -1})
        elif k == "end":
            out.append({"ev": "End"})
        if "obs" in ev and k != "end":
            o = ev["obs"]
            if "buf" in o:                                           # (private state: compared only if readable)
                bufs = [[] for _ in range(mod)]
                for key, v in o["buf"]:
                    bufs[0 if key == -1 else key] = list(v)
                out.append({"ev": "ObsBuf", "buf": bufs})
            if run["cfg"].get("timeout") is not None and "armed" in o:
                out.append({"ev": "ObsTimers", "armed": o["armed"]})
            out.append({"ev": "ObsRc", "rc": o["rc"]})
    for x in out:
        x.pop("_b", None)
    return out


def attribute(run, trace, idx):
    if idx > len(trace):
        return "C08", "end"
    ev = trace[idx - 1]
    k = ev["ev"]
    if k == "Flush" and ev.get("md") != ev.get("es"):
        return "C10", "partition %s was delivered with metadata %s (expected the members' metadata in member order)" % (ev.get("es"), ev.get("md"))
    if k in ("Flush", "Advance", "ObsBuf", "ObsTimers", "End"):
        return "C08", "%s does not match the specification (batch content, size, timer)" % k
    if k == "EmitRaised":
        return "C02", "emit raised %s" % ev.get("exc")
    if k == "EmitDone":
        return "C03", "emit completed at a point the specification does not allow"
    if k in ("FlushRelease", "FiredElsewhere", "UpRelease"):
        if k == "FlushRelease" and ev.get("fired"):
            busy = None
            for x in trace[:idx - 1]:
                if x["ev"] == "Flush" and x["es"] == ev["es"]:
                    busy = run["cfg"]["cons"][0] != "sync"
                if x["ev"] == "ConsumerDone" and x["es"] == ev["es"]:
                    busy = False
            if busy is None or busy:
                return "C04", "batch %s released before its consumer finished" % ev["es"]
        return "C05", "reference handling differs from the specification (%s)" % ev
    if k == "ObsRc":
        return "C05", "reference counts differ from the specification"
    return "C08", k


def consts_of(c):
    return dict(NE=c["max_elems"], N=c["n"], Timeout=int(c.get("timeout") or 0), Timed=c.get("timeout") is not None, Mod=c.get("mod") or 1,
                SyncCons=c["cons"][0] == "sync", MaxTime=1000, Faults=bool(c.get("faults")))


def run(tier, seed, mutant=None, only_validate=False):
    work = os.path.join(core.WORK, "apartition_%s_%d" % (tier, os.getpid()))
    os.makedirs(work, exist_ok=True)
    res = core.EngineResult("apartition")
    ne = 4 if tier == "quick" else 5
    try:
        combos = [(2, 2, 1), (2, 2, 2), (3, 2, 1), (1, 2, 1), (2, 0, 1)]
        if tier != "quick":
            combos += [(2, 1, 1), (2, 3, 2), (3, 3, 2), (3, 1, 3)]
        if not only_validate:
            r, rec = amod.mc(res, work, "AsyncPartition", "n2_zero_timeout",
                             dict(NE=ne, N=2, Timeout=0, Timed=True, Mod=1, SyncCons=False, MaxTime=3, Faults=False), INVS, workers=16)
            amod.spec_violation(res, r, rec, INV_PROP, "C08", "partition")
            for (n, to, mod) in combos:
                for sync in (False, True):
                    # (three keys x 5 elements are 44 million states: 4 elements there)
                    r, rec = amod.mc(res, work, "AsyncPartition", "n%d_t%d_m%d_sync%d" % (n, to, mod, sync),
                                     dict(NE=ne if mod < 3 else 4, N=n, Timeout=to, Timed=to > 0, Mod=mod, SyncCons=sync, MaxTime=2 * max(to, 1) + 2, Faults=not sync), INVS, workers=16)
                    amod.spec_violation(res, r, rec, INV_PROP, "C08", "partition")
        cfgs = []
        for (n, to, mod) in combos:
            for c in (("future", "sync") if tier == "quick" else ("future", "coro", "sync")):
                cfgs.append({"kind": "partition", "n": n, "timeout": to or None, "mod": mod if mod > 1 else None,
                             "cons": [c], "max_elems": ne})
        cfgs.append({"kind": "partition", "n": 2, "timeout": 2, "mod": None, "cons": ["future"], "max_elems": ne, "feeder": "plain"})
        # timeout=0 (and 0.0): falsy, but a time-out like any other -- the partial partition leaves at the next loop iteration
        cfgs += [{"kind": "partition", "n": n, "timeout": z, "mod": m, "cons": ["future"], "max_elems": ne}
                 for (n, z, m) in ((2, 0, None), (3, 0.0, 2))]
        # the consumer's awaitable may raise (once per run)
        cfgs.append({"kind": "partition", "n": 2, "timeout": 2, "mod": None, "cons": ["future"], "max_elems": ne, "faults": True})
        cfgs.append({"kind": "partition", "n": 2, "timeout": None, "mod": 2, "cons": ["future"], "max_elems": ne, "faults": True})
        # falsy payloads (None, 0) are elements like any other
        cfgs.append({"kind": "partition", "n": 2, "timeout": 2, "mod": None, "cons": ["future"], "max_elems": ne,
                     "falsy": {"none": 2, "zero": 3}})
        amod.node_engine(res, work, node="partition", trace_module="AsyncPartitionTrace", cfgs=cfgs, consts_of=consts_of,
                         adapt=adapt, attribute=attribute, seed=seed, depth=7 if tier == "quick" else 9,
                         limit=150 if tier == "quick" else 1500, nrandom=150 if tier == "quick" else 1500,
                         default_prop="C08", mutant=mutant,
                         nontrivial=lambda r, t: any(x["ev"] == "Flush" for x in t) and any(x["ev"] == "Advance" for x in t))
        res.rule = ("apartition: partition(n, timeout, key) for n in 1..3, timeout in 0..3, 1..3 keys x consumer style x schedules over "
                    "{arrive, finish oldest/newest consumer, one loop iteration, advance clock}; non-trivial = a flush and a clock "
                    "advance; distinct by (configuration, schedule)")
    finally:
        shutil.rmtree(work, ignore_errors=True)
    return res


def canaries(tier, seed):
    r = run("quick", seed, mutant="partition_no_cancel", only_validate=True)
    return [dict(name="mutant:partition_no_cancel", detected=bool(r.violations), rejected=len(r.violations))]


TRACE_MODULE = "AsyncPartitionTrace"


def replay(v):
    import sys as _s
    return amod.replay_node(_s.modules[__name__], v)
