"""Engine 'arate': AsyncRateLimit.tla -- rate_limit(interval) (C13 and its part of C04/C05)."""
import os
import shutil
import sys

sys.path.insert(0, os.path.dirname(os.path.dirname(os.path.abspath(__file__))))
import core   # noqa: E402
import amod   # noqa: E402

INVS = ["TypeOK", "Spacing", "Order", "NoLoss", "NoNeedlessDelay", "OnTime", "CbSafe", "RcBalance"]
INV_PROP = {"Spacing": "C13", "Order": "C13", "NoLoss": "C13", "NoNeedlessDelay": "C13", "OnTime": "C13",
            "CbSafe": "C04", "RcBalance": "C05", "TypeOK": "C13"}


def adapt(run):
    sync = run["cfg"]["cons"][0] == "sync"
    out, d2e, cur = [], {}, None
    for ev in run["ev"]:
        k = ev["ev"]
        if k == "emit_call":
            out.append({"ev": "Arrive", "e": ev["e"]})
        elif k == "release" and ev["site"].endswith("Stream._emit@source"):
            out.append({"ev": "UpRelease", "e": ev["tag"], "count": ev["count"], "fired": bool(ev["fired"])})
        elif k == "deliver":
            e = ev["x"][0] if len(ev["x"]) == 1 else -1
            d2e[ev["d"]] = e
            out.append({"ev": "CbEmit", "e": e, "md": ev["md"]})
        elif k == "cons_done" and not sync:
            out.append({"ev": "ConsumerDone", "e": d2e.get(ev["d"], -1)})
        elif k == "release" and ev["site"].endswith("rate_limit.update"):
            out.append({"ev": "Release", "e": ev["tag"], "count": ev["count"], "fired": bool(ev["fired"])})
        elif k == "release" and ev["fired"]:
            out.append({"ev": "FiredElsewhere", "e": ev["tag"], "site": ev["site"]})
        elif k == "cons_fail":
            out.append({"ev": "ConsumerFail", "e": d2e.get(ev["d"], -1)})
        elif k == "emit_done":
            # (C16: the consumer's failure must reach the emitter -- and only a failure may)
            out.append({"ev": "EmitRaised" if ev.get("exc") else "EmitDone", "e": ev["e"]})
        elif k == "time":
            out.append({"ev": "Advance", "now": int(ev["now"]) if float(ev["now"]).is_integer() else -1})
        elif k == "end":
            out.append({"ev": "End", "quiescent": bool(ev["quiescent"])})
        if "obs" in ev and k != "end":
            o = ev["obs"]
            if isinstance(o.get("next"), (int, float)):              # (private state: compared only if readable)
                nx = o["next"]
                out.append({"ev": "ObsNext", "next": int(nx) if float(nx).is_integer() else -1})
            out.append({"ev": "ObsRc", "rc": o["rc"]})
    return out


def attribute(run, trace, idx):
    if idx > len(trace):
        return "C13", "end"
    ev = trace[idx - 1]
    k = ev["ev"]
    sync = run["cfg"]["cons"][0] == "sync"
    if k == "CbEmit" and ev.get("md") != [ev.get("e")]:
        return "C10", "element %s was delivered with metadata %s instead of its own" % (ev.get("e"), ev.get("md"))
    if k in ("CbEmit", "Advance", "ObsNext", "End"):
        return "C13", "%s does not match the specification (spacing / order / reservation)" % k
    if k in ("EmitDone", "EmitRaised"):
        return "C03", "emit completed / raised at a point the specification does not allow"
    if k in ("Release", "FiredElsewhere", "UpRelease"):
        e = ev.get("e")
        early = amod.premature(trace, idx, e, sync=sync)
        if (ev.get("fired") or k == "FiredElsewhere") and early:
            return "C04", "completion callback of element %s fired before its consumer finished (%s)" % (e, k), (["C03"] if k == "Release" else [])
        if k == "Release" and early:
            # rate_limit releases at the very end of update(): letting go before the consumer has finished means update() -- and
            # with it the producer's emit -- no longer waits for the consumer (C03), and the reference no longer protects it (C04)
            return "C05", ("rate_limit let go of element %s before its consumer had finished: neither the reference nor the "
                           "producer's emit waits for the consumer any more" % e), ["C03", "C04"]
        return "C05", "reference handling of element %s differs from the specification (%s)" % (e, k)
    if k == "ObsRc":
        return "C05", "reference counts differ from the specification"
    return "C13", k


def run(tier, seed, mutant=None, only_validate=False):
    work = os.path.join(core.WORK, "arate_%s_%d" % (tier, os.getpid()))
    os.makedirs(work, exist_ok=True)
    res = core.EngineResult("arate")
    ne = 4
    try:
        if not only_validate:
            for interval in ((2,) if tier == "quick" else (1, 2, 3)):
                for sync in (False, True):
                    r, rec = amod.mc(res, work, "AsyncRateLimit", "i%d_sync%d" % (interval, sync),
                                     dict(NE=ne, Interval=interval, SyncCons=sync, MaxTime=3 * interval + 2, Retain=True, Faults=not sync, Feedback=False),
                                     INVS, workers=16)
                    amod.spec_violation(res, r, rec, INV_PROP, "C13", "rate_limit")
            # a cycle through the node: arrivals in the middle of a delivery
            r, rec = amod.mc(res, work, "AsyncRateLimit", "feedback",
                             dict(NE=ne, Interval=2, SyncCons=False, MaxTime=8, Retain=True, Faults=False, Feedback=True), INVS, workers=16)
            amod.spec_violation(res, r, rec, INV_PROP, "C13", "rate_limit")
            r, rec = amod.mc(res, work, "AsyncRateLimit", "legacy_CbSafe",
                             dict(NE=2, Interval=2, SyncCons=False, MaxTime=4, Retain=False, Faults=False, Feedback=False), ["CbSafe"])
            rec["expected_violation"] = "CbSafe"
            rec["ok"] = r.violated == "CbSafe"
            if r.violated != "CbSafe":
                raise core.MachineryError("sensitivity run: rate_limit without retain not refuted by CbSafe")
        cfgs = [{"kind": "rate_limit", "interval": i, "cons": [c], "max_elems": ne}
                for i in ((2,) if tier == "quick" else (1, 2, 3)) for c in ("future", "coro", "sync")]
        # intervals given as strings (convert_interval): seconds, hours, whole days
        cfgs += [{"kind": "rate_limit", "interval": i, "cons": ["future"], "max_elems": 3} for i in ("2s", "1d", "36h")]
        # ... fractional and compound strings (pandas' grammar, not a "<digits><unit>" pattern)
        cfgs += [{"kind": "rate_limit", "interval": i, "cons": ["future"], "max_elems": 3} for i in ("2.0s", "1min 30s", "0.05min", "3000ms")]
        cfgs += [{"kind": "rate_limit", "interval": 2, "cons": [c], "max_elems": ne, "faults": True} for c in ("future", "coro")]
        cfgs += [{"kind": "rate_limit", "interval": 2, "cons": ["future"], "max_elems": ne, "falsy": {"none": 2, "zero": 3}}]
        # a caller that does not wait (a plain loop-less Stream connected in front, collect().flush(), ...): the node must do its
        # work without anybody awaiting what update() returns
        cfgs += [{"kind": "rate_limit", "interval": 2, "cons": [c], "max_elems": ne, "feeder": "plain"} for c in ("future", "sync")]
        # gaps: time passes while nothing at all is pending, then a burst (every gap length up to 2.5 intervals, twice)
        for i in ((2, 3) if tier == "quick" else (1, 2, 3, 4)):
            gaps = ["e1 s d s " + "w " * g + "e1 e1 s" for g in range(1, 2 * i + 2)]
            gaps += ["e1 s d s " + "w " * g + "e1 s d s " + "w " * h + "e1 e1" for g in range(1, 2 * i + 2) for h in (1, i, i + 1)]
            cfgs.append({"kind": "rate_limit", "interval": i, "cons": ["future"], "max_elems": ne, "idle_wait": True, "schedules": gaps})
        # start() / stop();start() reaching the node from downstream while it is running: nothing changes
        import random as _random
        _rng = _random.Random(seed + 7)
        life = ["e1 e1 e1 R e1 s a s a s a s a", "e1 s d R e1 s d", "e1 e1 s d Z e1 e1 s a s d a s d", "e1 s d w R e1 s d w Z e1 s d"]
        life += [" ".join(_rng.choice(["e1", "e1", "s", "d", "a", "w", "R", "Z"]) for _ in range(_rng.randint(6, 14)))
                 for _ in range(60 if tier == "quick" else 600)]
        cfgs.append({"kind": "rate_limit", "interval": 2, "cons": ["future"], "max_elems": ne, "lifecycle": True, "idle_wait": True, "schedules": life})
        # a cycle through the limiter (examples/fib_*.py): the consumer emits the next element while it is handed the current one
        cfgs += [{"kind": "rate_limit", "interval": i, "cons": ["future"], "max_elems": ne, "feedback": True} for i in (2, 3)]
        amod.node_engine(res, work, node="rate_limit", trace_module="AsyncRateLimitTrace", cfgs=cfgs,
                         consts_of=lambda c: dict(NE=ne, Interval=amod.seconds(c["interval"]), SyncCons=c["cons"][0] == "sync",
                                                  MaxTime=100000000, Retain=True, Faults=bool(c.get("faults")), Feedback=bool(c.get("feedback"))),
                         adapt=adapt, attribute=attribute, seed=seed, depth=8 if tier == "quick" else 10,
                         limit=300 if tier == "quick" else 3000, nrandom=250 if tier == "quick" else 2500,
                         default_prop="C13", mutant=mutant,
                         nontrivial=lambda r, t: any(x["ev"] == "Advance" for x in t) and sum(1 for x in t if x["ev"] == "CbEmit") >= 2)
        res.rule = ("arate: rate_limit(interval) x consumer style x schedules over {arrive, finish oldest/newest consumer, run one "
                    "iteration, advance clock to next timer / by one unit}; non-trivial = at least two deliveries and a clock "
                    "advance; distinct by (configuration, schedule)")
    finally:
        shutil.rmtree(work, ignore_errors=True)
    return res


def canaries(tier, seed):
    r = run("quick", seed, mutant="rate_limit_no_reserve", only_validate=True)
    return [dict(name="mutant:rate_limit_no_reserve", detected=bool(r.violations), rejected=len(r.violations))]


TRACE_MODULE = "AsyncRateLimitTrace"
consts_of = lambda c: dict(NE=c['max_elems'], Interval=amod.seconds(c['interval']), SyncCons=c['cons'][0] == 'sync', MaxTime=100000000, Retain=True, Faults=bool(c.get('faults')), Feedback=bool(c.get('feedback')))


def replay(v):
    import sys as _s
    return amod.replay_node(_s.modules[__name__], v)
