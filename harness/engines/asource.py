"""Engine 'asource': SourceLoop.tla -- start/stop lifecycle of polling sources (C18)."""
import json
import os
import shutil
import sys

sys.path.insert(0, os.path.dirname(os.path.dirname(os.path.abspath(__file__))))
import core   # noqa: E402
import amod   # noqa: E402

INVS = ["TypeOK", "AtMostOneActive", "InOrderOnce", "OneInFlight", "NoCycleWhileStopped", "PollSpacing", "Exhausted"]


def adapt(run):
    sync = run["cfg"].get("cons", "future") == "sync"
    out = []
    for ev in run["ev"]:
        k = ev["ev"]
        if k == "start":
            out.append({"ev": "Start"})
        elif k == "stop":
            out.append({"ev": "Stop"})
        elif k == "deliver":
            out.append({"ev": "Emit", "item": ev["x"][0] if len(ev["x"]) == 1 else -1})
        elif k == "cons_done" and not sync:
            out.append({"ev": "ConsumerDone"})
        elif k == "time":
            out.append({"ev": "Advance", "now": int(ev["now"]) if float(ev["now"]).is_integer() else -1})
        elif k == "end":
            out.append({"ev": "End"})
        if "obs" in ev and k not in ("end",):
            out.append({"ev": "ObsStopped", "stopped": bool(ev["obs"]["stopped"])})
    return out


def attribute(run, trace, idx):
    if idx > len(trace):
        return "C18", "end"
    ev = trace[idx - 1]
    busy = sum(1 for x in trace[:idx - 1] if x["ev"] == "Emit") - sum(1 for x in trace[:idx - 1] if x["ev"] == "ConsumerDone")
    if ev["ev"] == "Emit" and run["cfg"].get("cons", "future") != "sync" and busy > 0:
        # whether a second polling loop did it or the one loop did not wait: the source did not wait for its consumer
        return "C18", "item %s emitted while the consumer of the previous one had not finished (second polling loop, or an emit that is not awaited)" % ev.get("item"), ["C03"]
    return "C18", "%s is not allowed by the specification here (second polling loop / cycle after stop / order)" % ev["ev"]


def drive(work, cfgs, seed, depth, limit, nrandom, mutant=None):
    out = os.path.join(work, "runs")
    shutil.rmtree(out, ignore_errors=True)
    args = ["--cfgs", json.dumps(cfgs), "--seed", seed, "--out", out, "--depth", depth, "--limit", limit, "--random", nrandom]
    if mutant:
        args += ["--mutant", mutant]
    rc, so, se = core.run_driver("source_driver.py", args)
    if rc != 0:
        raise core.MachineryError("source driver failed: " + se[-1500:])
    with open(os.path.join(out, "runs.json")) as f:
        runs = json.load(f)
    shutil.rmtree(out, ignore_errors=True)
    return runs


def consts_of(c):
    kind = "periodic" if c["kind"] in ("periodic", "custom_gen", "custom_future") else "polling" if c["kind"] == "kafka_poll" else "iterable"
    return dict(Kind=kind, NI=c.get("ni", 1000), Poll=int(c.get("poll", 0)), DoWhile=False,
                MaxLoops=6, MaxTime=100000, MaxCalls=1000, Guarded=True, SyncCons=c.get("cons", "future") == "sync")


def run(tier, seed, mutant=None, only_validate=False):
    work = os.path.join(core.WORK, "asource_%s_%d" % (tier, os.getpid()))
    os.makedirs(work, exist_ok=True)
    res = core.EngineResult("asource")
    try:
        if not only_validate:
            for kind, ni, mt in (("periodic", 4, 6), ("iterable", 3, 0), ("polling", 3, 4)):
                for sync in (False, True):
                    r, rec = amod.mc(res, work, "SourceLoop", "%s_sync%d" % (kind, sync),
                                     dict(Kind=kind, NI=ni, Poll=2, MaxLoops=3, MaxTime=mt, MaxCalls=5 if tier == "quick" else 6,
                                          Guarded=True, SyncCons=sync, DoWhile=False),
                                     INVS, ["StartIdempotent", "StopIdempotent"], workers=16)
                    amod.spec_violation(res, r, rec, {}, "C18", "source")
            r, rec = amod.mc(res, work, "SourceLoop", "unguarded", dict(Kind="periodic", NI=3, Poll=2, MaxLoops=3, MaxTime=4,
                             MaxCalls=4, Guarded=False, SyncCons=False, DoWhile=False), ["AtMostOneActive"])
            rec["expected_violation"] = "AtMostOneActive"
            rec["ok"] = r.violated == "AtMostOneActive"
            if r.violated != "AtMostOneActive":
                raise core.MachineryError("sensitivity run: unguarded start not refuted by AtMostOneActive")
            # from_kafka as it was in the pinned tree: a start() of its own without the guard (F26a), and a loop that tests
            # `stopped` only after a poll (F26b)
            for name, consts, inv in (("polling_unguarded", dict(Guarded=False, DoWhile=False), "AtMostOneActive"),
                                      ("polling_dowhile", dict(Guarded=True, DoWhile=True), "NoCycleWhileStopped")):
                r, rec = amod.mc(res, work, "SourceLoop", name, dict(dict(Kind="polling", NI=3, Poll=2, MaxLoops=3, MaxTime=4, MaxCalls=4,
                                 SyncCons=False), **consts), [inv])
                rec["expected_violation"] = inv
                rec["ok"] = r.violated == inv
                if r.violated != inv:
                    raise core.MachineryError("sensitivity run: pre-fix from_kafka (%s) not refuted by %s" % (name, inv))
        cfgs = [{"kind": "periodic", "poll": 2, "cons": "future"}, {"kind": "periodic", "poll": 2, "cons": "sync"},
                {"kind": "periodic", "poll": 3, "cons": "coro"},
                {"kind": "iterable", "ni": 4, "cons": "future"}, {"kind": "iterable", "ni": 4, "cons": "sync"},
                {"kind": "iterable", "ni": 3, "cons": "coro"},
                {"kind": "iterable", "ni": 4, "cons": "sync", "stop_at": 2}, {"kind": "iterable", "ni": 4, "cons": "future", "stop_at": 1},
                {"kind": "periodic", "poll": 2, "cons": "sync", "stop_at": 2},
                # user-defined sources whose run() is a tornado coroutine / returns a Future
                {"kind": "custom_gen", "poll": 2, "cons": "future"}, {"kind": "custom_future", "poll": 2, "cons": "sync"},
                # from_kafka over the in-memory client: a source with a polling loop and a start() of its own
                {"kind": "kafka_poll", "poll": 2, "ni": 4, "pre": 2, "cons": "future"}, {"kind": "kafka_poll", "poll": 2, "ni": 4, "pre": 1, "cons": "sync"}]
        runs = drive(work, cfgs, seed, 7 if tier == "quick" else 9, 250 if tier == "quick" else 3000,
                     150 if tier == "quick" else 1500, mutant=mutant)
        # reuse the generic grouping / validation of amod.node_engine by handing it pre-recorded runs
        saved = amod.drive
        amod.drive = lambda *a, **k: runs
        try:
            amod.node_engine(res, work, node="source", trace_module="SourceLoopTrace", cfgs=cfgs, consts_of=consts_of,
                             adapt=adapt, attribute=attribute, seed=seed, depth=0, limit=0, nrandom=0, default_prop="C18",
                             nontrivial=lambda r, t: sum(1 for x in t if x["ev"] in ("Start", "Stop")) >= 2 and any(x["ev"] == "Emit" for x in t))
        finally:
            amod.drive = saved
        res.rule = ("asource: from_periodic / from_iterable x consumer style x all schedules of depth <= 7/9 over {start, stop, one loop "
                    "iteration, finish consumer, advance clock} (<= 4 start/stop calls) + random longer ones; non-trivial = >= 2 "
                    "start/stop calls and an emission; distinct by (configuration, schedule)")
    finally:
        shutil.rmtree(work, ignore_errors=True)
    return res


def canaries(tier, seed):
    r = run("quick", seed, mutant="source_start_always", only_validate=True)
    return [dict(name="mutant:source_start_always", detected=bool(r.violations), rejected=len(r.violations))]
