"""Engine 'asrcfile': TextFile.tla / Filenames.tla -- file based sources (C17)."""
import itertools
import json
import os
import random
import shutil
import sys

sys.path.insert(0, os.path.dirname(os.path.dirname(os.path.abspath(__file__))))
import core   # noqa: E402
import amod   # noqa: E402

INVS = ["Conservation", "WholeRecords", "TailHeld", "Exact", "OneAtATime"]
DELIMS = {"DelimNL": "\n", "DelimNLBar": "\n|", "DelimNLNL": "\n\n"}
DTLA = {"DelimNL": "<<10>>", "DelimNLBar": "<<10, 124>>", "DelimNLNL": "<<10, 10>>"}


def chunkings(data, rng, limit):
    n = len(data)
    allc = []
    for mask in range(1 << max(n - 1, 0)):
        cuts = [i + 1 for i in range(n - 1) if mask >> i & 1]
        parts, a = [], 0
        for c in cuts + [n]:
            parts.append(list(data[a:c]))
            a = c
        allc.append(parts)
    if len(allc) > limit:
        allc = rng.sample(allc, limit)
    return allc


def text_scenarios(tier, rng):
    """[cfg, schedule] pairs: texts x delimiters x chunkings x poll placements x from_end"""
    out = []
    alpha = "x\n|"
    L = 4 if tier == "quick" else 5
    texts = ["".join(t) for n in range(1, L + 1) for t in itertools.product(alpha, repeat=n)]
    texts += ["ab\ncd\n", "a\n\nb\n\n\nc", "x\n|y\n|\n", "\n\n\n\n\n", "one\ntwo\nthr", "a\n|\n|b\n"]
    # characters that str.splitlines() treats as line boundaries but that are ordinary record content here
    # (no carriage returns: the file is read in text mode, whose universal-newline translation is Python's, not streamz')
    texts += ["p1\x0cp2\nq\x0br\n", "\x1e{}\n\x1e[]\n", "a\x1cb\x1dc\n|d\n"]
    if tier == "quick":
        texts = rng.sample(texts[:-9], 70) + texts[-9:]
    for text in texts:
        data = text.encode()
        for dname in DELIMS:
            for parts in chunkings(data, rng, 6 if tier == "quick" else 32):
                for fe in (False, True):
                    if fe and rng.random() < 0.7:
                        continue
                    cfg = {"kind": "textfile", "poll": 1, "delimiter": DELIMS[dname], "dname": dname, "from_end": fe,
                           "initial": "x\ny" if fe else "", "chunks": parts, "cons": rng.choice(["sync", "future"])}
                    # poll placement: before each chunk independently
                    for _ in range(2 if tier == "quick" else 4):
                        sched = ["S"]
                        for k in range(len(parts)):
                            if rng.random() < 0.5:
                                sched.append("P")
                            sched.append("W%d" % k)
                        # lifecycle calls that must change nothing: start on the started source, stop immediately followed by start
                        r = rng.random()
                        if r < 0.3:
                            sched.insert(rng.randint(1, len(sched)), "S")
                        elif r < 0.45:
                            i = rng.randint(1, len(sched))
                            sched[i:i] = ["T", "S"]
                        out.append([cfg, sched])
    return out


def via_scenarios(tier, rng):
    """from_textfile -> map_async -> consumer: the pipeline is stopped through the map_async node in the middle of a batch of
    records; afterwards more is written: nothing of it may come out (no start has been called)"""
    out = []
    for k in range(30 if tier == "quick" else 300):
        n1 = rng.randint(2, 4)
        first = "".join("r%d\n" % i for i in range(n1)).encode()
        second = b"late\nlater\n"
        cfg = {"kind": "textfile", "poll": 1, "delimiter": "\n", "dname": "DelimNL", "from_end": False, "initial": "",
               "chunks": [list(first), list(second)], "cons": rng.choice(["future", "sync"]), "via": "map_async"}
        sched = ["S", "W0", "P"]
        # let some of the records through, stop via the map_async node, let the rest of the cycle finish
        sched += [rng.choice(["s", "d", "s"]) for _ in range(rng.randint(0, 6))]
        sched += ["M"]
        sched += [rng.choice(["s", "d", "P"]) for _ in range(rng.randint(2, 8))]
        sched += ["W1", "P", "P"]
        out.append([cfg, sched])
        # ... or from inside the delivery of the k-th record (a sibling consumer served first)
        cfg2 = dict(cfg, via_stop_at=rng.randint(1, n1))
        out.append([cfg2, ["S", "W0", "P"] + [rng.choice(["s", "d", "P"]) for _ in range(rng.randint(2, 8))] + ["W1", "P", "P", "d", "P"]])
    return out


def multibyte_scenarios():
    """a poll that falls inside a two-byte character (known finding F17)"""
    data = "a\né\nb\n".encode("utf-8")
    i = data.index(b"\xc3") + 1
    parts = [list(data[:i]), list(data[i:])]
    cfg = {"kind": "textfile", "poll": 1, "delimiter": "\n", "dname": "DelimNL", "from_end": False, "initial": "",
           "chunks": parts, "cons": "sync", "multibyte_split": True}
    return [[cfg, ["S", "P", "W0", "P", "W1"]], [cfg, ["S", "W0", "W1", "P"]]]


def adapt_text(run):
    out = []
    for ev in run["ev"]:
        k = ev["ev"]
        if k == "write":
            out.append({"ev": "Write", "data": ev["data"]})
        elif k == "deliver":
            pass
        if k == "deliver_raw":
            out.append({"ev": "Emit", "rec": ev["rec"]})
        if k == "end":
            out.append({"ev": "End"})
        if "obs" in ev and "buffer" in ev["obs"] and k in ("time", "deliver_raw", "cons_done"):
            pass
    return out


def filename_scenarios(tier, rng):
    flat = {1: "a1.txt", 2: "a2.txt", 3: "c3.txt", 4: "z4.txt", 5: "n5.dat", 6: "m6.log"}
    nested = {1: "d1/a1.txt", 2: "d1/b2.txt", 3: "d2/a3.txt", 4: "d3/z4.txt", 5: "d1/n5.dat", 6: "m6.txt"}
    out = []
    for k in range(120 if tier == "quick" else 1500):
        names, pattern, dirs = (flat, "*.txt", []) if k % 2 == 0 else (nested, "*/*.txt", ["d1", "d2"])
        order = rng.sample(sorted(names), rng.randint(2, 6))
        cfg = {"kind": "filenames", "poll": 1, "pattern": pattern, "files": [names[i] for i in order], "predirs": dirs,
               "ids": order, "cons": rng.choice(["sync", "future"])}
        sched = ["S"]
        if rng.random() < 0.5:
            sched.append("P")
        for k2 in range(len(order)):
            if rng.random() < 0.45:
                sched.append("P")
            sched.append("C%d" % k2)
        out.append([cfg, sched])
    return out


def run(tier, seed, mutant=None, only_validate=False):
    work = os.path.join(core.WORK, "asrcfile_%s_%d" % (tier, os.getpid()))
    os.makedirs(work, exist_ok=True)
    res = core.EngineResult("asrcfile")
    rng = random.Random(seed)
    try:
        if not only_validate:
            for dname, dt in DTLA.items():
                for fe, init in ((False, "<<>>"), (True, "<<120, 10, 121>>")):
                    r, rec = amod.mc(res, work, "TextFile", "%s_fe%d" % (dname, fe),
                                     dict(Alphabet="<-AlphaDef", Delim="<-DelimDef", Initial="<-InitialDef",
                                          MaxLen=(6 if tier == "quick" else 7) + (3 if fe else 0), FromEnd=fe, Burst=False), INVS, ["NoReadWhileStopped"], workers=16,
                                     extra_defs="AlphaDef == {120, 10, 124}\nDelimDef == %s\nInitialDef == %s" % (dt, init))
                    amod.spec_violation(res, r, rec, {"OneAtATime": "C03"}, "C17", "textfile")
            # sensitivity: a source that hands on the records of one read back to back and awaits them together
            r, rec = amod.mc(res, work, "TextFile", "burst", dict(Alphabet="<-AlphaDef", Delim="<-DelimDef", Initial="<-InitialDef",
                                                                    MaxLen=5, FromEnd=False, Burst=True), ["OneAtATime"], workers=16,
                             extra_defs="AlphaDef == {120, 10}\nDelimDef == <<10>>\nInitialDef == <<>>")
            rec["expected_violation"] = "OneAtATime"
            rec["ok"] = r.violated == "OneAtATime"
            if r.violated != "OneAtATime":
                raise core.MachineryError("sensitivity run: a bursting text source not refuted by OneAtATime")
            r, rec = amod.mc(res, work, "Filenames", "f6", dict(Files="<-FilesDef", Matching="<-MatchingDef"),
                             ["ExactlyOnce", "Complete", "SortedPerPoll"], workers=16,
                             extra_defs="FilesDef == 1 .. 5\nMatchingDef == {1, 2, 3, 4}")
            amod.spec_violation(res, r, rec, {}, "C17", "filenames")
        # ---- real from_textfile
        scen = text_scenarios(tier, rng) + multibyte_scenarios() + via_scenarios(tier, rng)
        sfile = os.path.join(work, "scen.json")
        tmpdir = os.path.join(work, "files")
        os.makedirs(tmpdir, exist_ok=True)
        for cfg, _ in scen:
            cfg["tmpdir"] = tmpdir
        with open(sfile, "w") as f:
            json.dump(scen, f)
        out = os.path.join(work, "runs")
        args = ["--cfgs", "[]", "--seed", seed, "--out", out, "--explicit", sfile]
        if mutant:
            args += ["--mutant", mutant]
        rc, so, se = core.run_driver("source_driver.py", args)
        if rc != 0:
            raise core.MachineryError("source driver failed: " + se[-1500:])
        with open(os.path.join(out, "runs.json")) as f:
            runs = json.load(f)
        groups, traces = {}, {}
        for i, r in enumerate(runs, start=1):
            t = []
            # a consumer that returns an awaitable directly behind the source: the source waits for it (C03)
            awaited = r["cfg"].get("cons", "future") != "sync" and not r["cfg"].get("via")
            for ev in r["ev"]:
                if ev["ev"] == "cons_done" and awaited:
                    t.append({"ev": "Done"})
                if ev["ev"] == "write":
                    t.append({"ev": "Write", "data": ev["data"]})
                elif ev["ev"] in ("start", "stop"):
                    t.append({"ev": ev["ev"].capitalize()})
                elif ev["ev"] == "deliver":
                    t.append({"ev": "Emit", "rec": ev.get("raw", [-1]), "async": awaited})
                elif ev["ev"] == "end":
                    t.append({"ev": "End"})
            c = r["cfg"]
            key = (c["dname"], c["from_end"])
            groups.setdefault(key, []).append({"id": i, "ev": t})
            traces[i] = (r, t)
        glist = [("textfile %s from_end=%s" % k, dict(Alphabet="<-TraceAlphabet", Delim="<-" + k[0],
                                                      Initial="<-InitialText" if k[1] else "<-InitialEmpty",
                                                      MaxLen=1000, FromEnd=k[1], Burst=False), ts) for k, ts in groups.items()]
        reached, problems = amod.validate_groups(work, "TextFileTrace", glist)
        _collect(res, "textfile", traces, reached, problems)
        # ---- real filenames
        if not mutant or mutant.startswith("filenames"):
            scen = filename_scenarios(tier, rng)
            for cfg, _ in scen:
                cfg["tmpdir"] = tmpdir
            with open(sfile, "w") as f:
                json.dump(scen, f)
            shutil.rmtree(out, ignore_errors=True)
            args = ["--cfgs", "[]", "--seed", seed, "--out", out, "--explicit", sfile]
            if mutant:
                args += ["--mutant", mutant]
            rc, so, se = core.run_driver("source_driver.py", args)
            if rc != 0:
                raise core.MachineryError("source driver failed: " + se[-1500:])
            with open(os.path.join(out, "runs.json")) as f:
                runs = json.load(f)
            traces, tl = {}, []
            for i, r in enumerate(runs, start=1):
                name2id = dict(zip(r["cfg"]["files"], r["cfg"]["ids"]))
                t = []
                for ev in r["ev"]:
                    if ev["ev"] == "create":
                        t.append({"ev": "Create", "f": name2id[ev["name"]]})
                    elif ev["ev"] == "deliver":
                        t.append({"ev": "Emit", "f": next((v for k, v in name2id.items() if ev.get("text", "").endswith("/" + k)), -1)})
                    elif ev["ev"] == "end":
                        t.append({"ev": "End"})
                traces[i] = (r, t)
                tl.append({"id": i, "ev": t})
            reached, problems = amod.validate_groups(work, "FilenamesTrace",
                                                     [("filenames", dict(Files="<-FilesDef", Matching="<-MatchingDef"), tl)])
            _collect(res, "filenames", traces, reached, problems)
        res.rule = ("asrcfile: from_textfile: texts of length <= 4/5 over {x, newline, |} + hand-picked ones x 3 delimiters x byte-level "
                    "chunkings x poll placements x from_end; filenames: creation orders of 6 files (4 matching) x poll placements; "
                    "non-trivial = at least one record/path emitted and a poll between two writes/creations")
    finally:
        shutil.rmtree(work, ignore_errors=True)
    return res


def _collect(res, node, traces, reached, problems):
    res.traces += len(traces)
    for name, kind, detail in problems:
        if kind == "error":
            raise core.MachineryError("%s trace validation failed on %s: %s" % (node, name, detail[:800]))
        inv = kind.split()[-1]
        res.violations.append(dict(property="C17", engine="asrcfile", clause=inv,
                                   what="a recorded run of the real %s source violates %s (%s)" % (node, inv, name),
                                   detail=detail, signature=dict(kind="trace-invariant", clause=inv, node=node)))
    nt = set()
    for i, (r, t) in traces.items():
        got = reached.get(i)
        if got is None:
            continue
        res.evaluations += len(t)
        if got[0] >= got[1]:
            res.accepted += 1
            sch = r["schedule"]
            if any(x["ev"] == "Emit" for x in t) and any(sch[j] == "P" and j > 1 for j in range(len(sch))):
                nt.add(json.dumps(r["cfg"], sort_keys=True) + " ".join(sch))
        else:
            evt = t[got[0] - 1] if got[0] <= len(t) else {"ev": "end"}
            sig = dict(kind="trace", node=node, event=evt["ev"])
            if r["cfg"].get("multibyte_split"):
                sig["variant"] = "poll-inside-multibyte-character"
            cfg = {k: v for k, v in r["cfg"].items() if k != "tmpdir"}
            # start() on the started source and stop();start() must change nothing: a run with such calls that loses or
            # repeats records breaks the source lifecycle (C18) as well
            life = sum(1 for o in r["schedule"] if o in ("S", "T", "M")) > 1 or bool(r["cfg"].get("via"))
            busy = sum(1 for x in t[:got[0] - 1] if x["ev"] == "Emit" and x.get("async")) - sum(1 for x in t[:got[0] - 1] if x["ev"] == "Done")
            if evt["ev"] == "Emit" and busy > 0:
                # the record itself may be the right one: it came while the consumer of the previous one was still busy
                res.violations.append(dict(
                    property="C03", engine="asrcfile", clause="OneAtATime",
                    what="%s %s schedule '%s': event #%d %s -- the source handed on a record while the consumer of the previous one "
                         "had not finished (%d in flight): the emit was not awaited" % (node, json.dumps(cfg, sort_keys=True)[:300], " ".join(r["schedule"]), got[0], evt, busy),
                    signature=dict(kind="backpressure", node=node, event="Emit"),
                    replay=dict(engine="asrcfile", cfg=cfg, schedule=r["schedule"], at=got[0], trace=t[:got[0] + 2])))
                continue
            res.violations.append(dict(
                property="C17", also=["C18"] if life else [], engine="asrcfile", clause=evt["ev"],
                what="%s %s schedule '%s': event #%d %s is not what the specification allows (record lost / duplicated / "
                     "modified / not held back)" % (node, json.dumps(cfg, sort_keys=True)[:300], " ".join(r["schedule"]), got[0], evt),
                signature=sig,
                replay=dict(engine="asrcfile", cfg=cfg, schedule=r["schedule"], at=got[0], trace=t[:got[0] + 2])))
    res.nontrivial += len(nt)
    for i in list(traces)[:2]:
        r, t = traces[i]
        res.samples.append(dict(cfg={k: v for k, v in r["cfg"].items() if k != "tmpdir"}, schedule=" ".join(r["schedule"]), trace=t[:12]))


def canaries(tier, seed):
    r = run("quick", seed, mutant="textfile_drop_tail", only_validate=True)
    n = [v for v in r.violations if not v["signature"].get("variant")]
    return [dict(name="mutant:textfile_drop_tail", detected=bool(n), rejected=len(n))]
