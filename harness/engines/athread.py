"""Engine 'athread': ThreadSync.tla -- blocking emit from producer threads into a pipeline whose loop runs in a
background thread (the threaded half of C03; spurious exceptions also concern C16)."""
import json
import os
import shutil
import sys

sys.path.insert(0, os.path.dirname(os.path.dirname(os.path.abspath(__file__))))
import core   # noqa: E402
import amod   # noqa: E402

INVS = ["TypeOK", "FlagRestored", "WaitsForConsumer", "ReturnedAfterDelivery", "NoSpuriousError", "PerProducerOrder"]


def run(tier, seed, mutant=None, only_validate=False):
    work = os.path.join(core.WORK, "athread_%s_%d" % (tier, os.getpid()))
    os.makedirs(work, exist_ok=True)
    res = core.EngineResult("athread")
    try:
        if not only_validate:
            for np_, nc in (((2, 2), (3, 1)) if tier == "quick" else ((2, 2), (3, 1), (2, 3))):
                r, rec = amod.mc(res, work, "ThreadSync", "np%d_nc%d" % (np_, nc), dict(NP=np_, NC=nc, Faults=True, DelTs=False, LeakFlag=False),
                                 INVS, ["AllReturn"], spec="FairSpec", coverage=False)
                amod.spec_violation(res, r, rec, {}, "C03", "blocking-emit")
            if tier != "quick":
                # three producers with two emits each: ~10 million states -- the invariants only (liveness on the smaller instances)
                r, rec = amod.mc(res, work, "ThreadSync", "np3_nc2_safety", dict(NP=3, NC=2, Faults=True, DelTs=False, LeakFlag=False),
                                 INVS, [], spec="Spec", coverage=False, workers=16, timeout=3000)
                amod.spec_violation(res, r, rec, {}, "C03", "blocking-emit")
            # sensitivity: the pinned tree's `del thread_state.asynchronous` (finding F24)
            r, rec = amod.mc(res, work, "ThreadSync", "legacy_del", dict(NP=2, NC=1, Faults=False, DelTs=True, LeakFlag=False), ["NoSpuriousError"],
                             coverage=False)
            rec["expected_violation"] = "NoSpuriousError"
            rec["ok"] = r.violated == "NoSpuriousError"
            if r.violated != "NoSpuriousError":
                raise core.MachineryError("sensitivity run: `del thread_state.asynchronous` not refuted by NoSpuriousError")
            # sensitivity: an emit that does not put the calling thread's flag back when the pipeline raises
            for inv in ("FlagRestored", "WaitsForConsumer"):
                r, rec = amod.mc(res, work, "ThreadSync", "leak_" + inv, dict(NP=2, NC=1, Faults=False, DelTs=False, LeakFlag=True), [inv],
                                 coverage=False)
                rec["expected_violation"] = inv
                rec["ok"] = r.violated == inv
                if r.violated != inv:
                    raise core.MachineryError("sensitivity run: a leaked thread flag not refuted by " + inv)
        out = os.path.join(work, "runs")
        args = ["--tier", tier, "--seed", seed, "--out", out]
        if mutant:
            args += ["--mutant", mutant]
        rc, so, se = core.run_driver("thread_driver.py", args, timeout=3000)
        if rc != 0:
            raise core.MachineryError("thread driver failed: " + se[-1500:])
        with open(os.path.join(out, "runs.json")) as f:
            runs = json.load(f)
        groups = {}
        for r in runs:
            groups.setdefault((r["np"], r["nc"]), []).append({"id": r["id"], "ev": r["ev"]})
        glist = [("blocking emit np=%d nc=%d" % k, dict(NP=k[0], NC=k[1], Faults=True, DelTs=False, LeakFlag=False), ts) for k, ts in groups.items()]
        reached, problems = amod.validate_groups(work, "ThreadSyncTrace", glist, timeout=1800)
        unsafe = getattr(amod.validate_groups, "unsafe", {})
        res.traces = len(runs)
        res.evaluations = sum(len(r["ev"]) for r in runs)
        for name, kind, detail in problems:
            if kind == "error":
                raise core.MachineryError("ThreadSyncTrace failed on %s: %s" % (name, detail[:800]))
            inv = kind.split()[-1]
            res.violations.append(dict(property="C03", engine="athread", clause=inv,
                                       what="a recorded run of real blocking emits violates %s (%s)" % (inv, name),
                                       detail=detail, signature=dict(kind="trace-invariant", clause=inv, node="blocking-emit")))
        nt = set()
        for r in runs:
            got = reached.get(r["id"])
            if got is None:
                continue
            for lidx in sorted(unsafe.get(r["id"], ())):
                if lidx < got[0] or got[0] >= got[1]:
                    e = r["ev"][lidx - 1]
                    res.violations.append(dict(
                        property="C03", also=["C16"], engine="athread", clause="NoSpuriousError",
                        what="pipeline %s, script %s: the blocking emit #%s of producer thread %s raised %s although its consumer "
                             "finished normally" % (r["shape"], r["script"], e.get("k"), e.get("p"), e.get("kind")),
                        signature=dict(kind="spurious-exception", node="blocking-emit", exc=e.get("kind")),
                        replay=dict(engine="athread", shape=r["shape"], np=r["np"], nc=r["nc"], script=r["script"], ev=r["ev"])))
            if got[0] >= got[1]:
                res.accepted += 1
                if any(o[0] == "finish" and len(o[1]) >= 2 for o in r["script"]):
                    nt.add(json.dumps([r["shape"], r["script"]]))
            else:
                e = r["ev"][got[0] - 1]
                why = {"Return": "the emit returned (or raised) at a point, or with an outcome, that ThreadSync does not allow -- before its "
                                 "consumer had finished, or with another exception than its consumer's",
                       "Deliver": "the consumer was called out of order / twice", "End": "an emit never returned",
                       "Stuck": "an emit never returned",
                       "AsyncEmit": "after an asynchronous emit in this thread (fails=%s) the thread's flag thread_state.asynchronous is %s: "
                                    "the failure left the thread in asynchronous mode, its next blocking emits will not block"
                                    % (e.get("fails"), e.get("flag"))}.get(e["ev"], e["ev"])
                res.violations.append(dict(
                    property="C16" if e["ev"] == "AsyncEmit" else "C03",
                    also=["C03"] if e["ev"] == "AsyncEmit" else ["C16"] if e["ev"] == "Return" else [], engine="athread", clause=e["ev"],
                    what="pipeline %s, script %s: event #%d %s -- %s" % (r["shape"], r["script"], got[0], e, why),
                    signature=dict(kind="trace", node="blocking-emit", event=e["ev"]),
                    replay=dict(engine="athread", shape=r["shape"], np=r["np"], nc=r["nc"], script=r["script"], at=got[0], ev=r["ev"])))
        res.nontrivial = len(nt)
        res.rule = ("athread: source(asynchronous=False) [-> map / filter.map] -> consumer returning a Future; 2-3 producer threads x 2 "
                    "blocking emits each; scripts over {call p, finish a sequence of suspended consumers in one loop callback, some "
                    "raising}: all permutations of the joint finish first, then random scripts; non-trivial = some callback finishes >= 2 "
                    "consumers")
        for r in runs[:2]:
            res.samples.append(dict(shape=r["shape"], script=r["script"], ev=r["ev"]))
    finally:
        shutil.rmtree(work, ignore_errors=True)
    return res
