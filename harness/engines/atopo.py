"""Engine 'atopo': Topology.tla (graph editing on top of SyncFlow) -- C15."""
import importlib.util
import json
import os
import shutil
import sys

sys.path.insert(0, os.path.dirname(os.path.dirname(os.path.abspath(__file__))))
import core       # noqa: E402
import amod       # noqa: E402
import tlc        # noqa: E402
import programs as P   # noqa: E402

INVS = ["LinksConsistent", "NoDanglingLinks", "NoParallelEdges", "CombinerShape", "SinksStay", "ForgottenCollected"]


def _graphs():
    spec = importlib.util.spec_from_file_location("topo_driver", os.path.join(core.VERIF, "harness", "drivers", "topo_driver.py"))
    # only the catalogue is needed; avoid importing streamz here
    src = open(spec.origin).read()
    ns = {"P": P}
    start = src.index("S = lambda")
    end = src.index("class Live")
    exec(src[start:end], ns)
    return ns["graphs"]()


def _mc(res, work, name, progs, max_emits, max_edits, invs, props, timeout=1500):
    d = os.path.join(work, "mc_" + name)
    os.makedirs(d, exist_ok=True)
    mod = os.path.join(d, "MCTopology.tla")
    with open(mod, "w") as f:
        f.write("---- MODULE MCTopology ----\nEXTENDS Topology\nProgSet == %s\nValSet == 0 .. 1\nMdSet == {\"none\"}\n====\n"
                % P.progset_tla(progs))
    cfg = os.path.join(d, "MCTopology.cfg")
    with open(cfg, "w") as f:
        f.write("INIT TInit\nNEXT TNext\nCONSTANTS\n  Programs <- ProgSet\n  Vals <- ValSet\n  MaxEmits = %d\n  MdChoices <- MdSet\n"
                "  MaxFail = 0\n  MaxEdits = %d\n" % (max_emits, max_edits))
        for i in invs:
            f.write("INVARIANT %s\n" % i)
        for p in props:
            f.write("PROPERTY %s\n" % p)
        f.write("CHECK_DEADLOCK FALSE\n")
    r = tlc.run(mod, cfg, d, workers=16, timeout=timeout, heap="12g")
    rec = dict(name="Topology/" + name, states=r.distinct, transitions=r.generated, ok=r.ok, violated=r.violated,
               wall_s=round(r.wall, 1), programs=len(progs), constants=dict(MaxEmits=max_emits, MaxEdits=max_edits, Vals="0..1"),
               invariants=list(invs), properties=list(props))
    res.tlc_runs.append(rec)
    shutil.rmtree(d, ignore_errors=True)
    return r, rec


def run(tier, seed, mutant=None, only_validate=False):
    work = os.path.join(core.WORK, "atopo_%s_%d" % (tier, os.getpid()))
    os.makedirs(work, exist_ok=True)
    res = core.EngineResult("atopo")
    try:
        graphs = _graphs()
        if not only_validate:
            me, md = (2, 2) if tier == "quick" else (2, 3)
            r, rec = _mc(res, work, "edits", graphs, me, md, INVS, ["DeliveriesFollowEdges"], timeout=3000)
            amod.spec_violation(res, r, rec, {}, "C15", "topology")
            # known finding F13b is a property of the modelled algorithm: TLC must exhibit it
            r, rec = _mc(res, work, "zip_stuck", graphs[:1], 2, 2, ["ZipNoCompleteTuple"], [])
            rec["expected_violation"] = "ZipNoCompleteTuple"
            rec["ok"] = r.violated == "ZipNoCompleteTuple"
            if r.violated != "ZipNoCompleteTuple":
                raise core.MachineryError("expected counter-example to ZipNoCompleteTuple (known finding F13b) not found")
        out = os.path.join(work, "runs")
        args = ["--tier", tier, "--seed", seed, "--out", out]
        if mutant:
            args += ["--mutant", mutant]
        rc, so, se = core.run_driver("topo_driver.py", args)
        if rc != 0:
            raise core.MachineryError("topology driver failed: " + se[-1500:])
        with open(os.path.join(out, "runs.json")) as f:
            runs = json.load(f)
        shards = [runs[k::8] for k in range(8)]
        consts = dict(Programs="<-EmptySet", Vals="<-TraceVals", MaxEmits=12, MdChoices="<-TraceMd", MaxFail=0, MaxEdits=100)
        glist = [("topology shard %d" % k, consts, [{"id": t["id"], "prog": t["prog"], "ev": t["ev"]} for t in sh])
                 for k, sh in enumerate(shards)]
        reached, problems = amod.validate_groups(work, "TopologyTrace", glist)
        unsafe = getattr(amod.validate_groups, "unsafe", {})
        res.traces = len(runs)
        res.evaluations = sum(len(t["ev"]) for t in runs)
        for name, kind, detail in problems:
            if kind == "error":
                raise core.MachineryError("TopologyTrace failed on %s: %s" % (name, detail[:800]))
            inv = kind.split()[-1]
            res.violations.append(dict(property="C15", engine="atopo", clause=inv,
                                       what="a recorded editing history on the real classes violates %s" % inv,
                                       detail=detail, signature=dict(kind="trace-invariant", clause=inv)))
        nt = set()
        for t in runs:
            got = reached.get(t["id"])
            if got is None:
                continue
            ops = [(e["ev"], e["a"], e["b"]) for e in t["ev"]]
            for lidx in sorted(unsafe.get(t["id"], ())):
                if lidx < got[0] or got[0] >= got[1]:
                    e = t["ev"][lidx - 1]
                    res.violations.append(dict(
                        property="C15", engine="atopo", clause="ZipNoCompleteTuple",
                        what="graph %s, operations %s: after %s(%s, %s) the zip node holds a complete tuple it never emits (it does not "
                             "behave like a zip built over its current inputs)" % (t["name"], ops[:lidx], e["ev"], e["a"], e["b"]),
                        # (d.destroy(streams=[u]) is u.disconnect(d) asked for at the other end: the same edit)
                        signature=dict(kind="zip-stuck", event="disconnect" if e["ev"] == "destroy_from" else e["ev"]),
                        replay=dict(engine="atopo", prog=t["prog"], ops=ops[:lidx])))
            if got[0] >= got[1]:
                res.accepted += 1
                if sum(1 for o in ops if o[0] != "emit") >= 2 and any(o[0] == "emit" for o in ops[2:]):
                    nt.add(t["name"] + json.dumps(ops))
            else:
                e = t["ev"][got[0] - 1]
                res.violations.append(dict(
                    # (an emission is validated by SyncFlow's data-flow step over the graph as it is now: a deviation there is
                    # a deviation from the dataflow semantics of the pipeline as well)
                    property="C15", engine="atopo", clause=e["ev"], also=["C01"] if e["ev"] == "emit" else [],
                    what="graph %s, operations %s: operation #%d %s(%s, %s) raised=%s %s -- links / liveness / combiner state / deliveries "
                         "differ from Topology.tla" % (t["name"], ops[:got[0]], got[0], e["ev"], e["a"], e["b"], e["raised"], e.get("exc", "")),
                    signature=dict(kind="trace", event=e["ev"], raised=e["raised"],
                                   node=t["prog"][e["b"] - 1]["kind"] if e["ev"] in ("connect", "disconnect") and e["b"] else
                                   t["prog"][e["a"] - 1]["kind"]),
                    replay=dict(engine="atopo", prog=t["prog"], ops=ops[:got[0]], observed=e)))
        res.nontrivial = len(nt)
        res.rule = ("atopo: 6 initial graphs (zip / combine_latest / union joins, branches with and without sinks, chains) x random "
                    "histories of <= 9 operations over {emit, connect, disconnect, destroy, drop reference + gc} (<= 5 edits, only "
                    "operations the specification's guards allow); non-trivial = >= 2 edits and an emission after them")
        for t in runs[:2]:
            res.samples.append(dict(graph=t["name"], ops=[(e["ev"], e["a"], e["b"]) for e in t["ev"]], sinks=t["ev"][-1]["sinks"] if t["ev"] else []))
    finally:
        shutil.rmtree(work, ignore_errors=True)
    return res


def canaries(tier, seed):
    r = run("quick", seed, mutant="disconnect_one_sided", only_validate=True)
    n = [v for v in r.violations if v["signature"].get("kind") != "zip-stuck"]
    return [dict(name="mutant:disconnect_one_sided", detected=bool(n), rejected=len(n))]
