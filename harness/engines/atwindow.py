"""Engine 'atwindow': AsyncTimedWindow.tla -- timed_window / timed_window_unique (C08, parts of C02-C05)."""
import os
import shutil
import sys

sys.path.insert(0, os.path.dirname(os.path.dirname(os.path.abspath(__file__))))
import core   # noqa: E402
import amod   # noqa: E402

INVS = ["TypeOK", "BatchExact", "Deadline", "NoOverdue", "CbSafe", "RcBalance"]
INV_PROP = {"BatchExact": "C08", "Deadline": "C08", "NoOverdue": "C08", "CbSafe": "C04", "RcBalance": "C05", "TypeOK": "C08"}


def adapt(run):
    sync = run["cfg"]["cons"][0] == "sync"
    out, cur, rel = [], None, None
    for ev in run["ev"]:
        k = ev["ev"]
        if not (k == "release" and ev["site"].endswith(".cb")):
            rel = None
        if k == "emit_call":
            cur = {"ev": "Arrive", "e": ev["e"], "fired": []}
            out.append(cur)
        elif k in ("emit_ret", "emit_raised"):
            cur = None
            if k == "emit_raised":
                out.append({"ev": "EmitRaised", "e": ev["e"], "exc": ev.get("exc")})
        elif k == "release" and cur is not None and not ev["site"].endswith(".cb"):
            if ev["fired"]:
                cur["fired"].append(ev["tag"])
        elif k == "deliver":
            tick = {"ev": "Tick", "es": list(ev["x"]), "fired": [], "md": ev["md"]}
            out.append(tick)
        elif k == "cons_done" and not sync:
            out.append({"ev": "ConsumerDone"})
        elif k == "cons_fail":
            out.append({"ev": "ConsumerFail"})
        elif k == "release" and ev["site"].endswith(".cb"):
            # releases before the delivery of the same batch belong to the Tick (pre-fix order)
            if rel is None:
                rel = {"ev": "TickRelease", "es": [], "fired": []}
                out.append(rel)
            rel["es"].append(ev["tag"])
            if ev["fired"]:
                rel["fired"].append(ev["tag"])
        elif k == "release" and ev["fired"]:
            out.append({"ev": "FiredElsewhere", "e": ev["tag"], "site": ev["site"]})
        elif k == "emit_done":
            if ev.get("exc"):
                out.append({"ev": "EmitRaised", "e": ev["e"], "exc": ev["exc"]})
            else:
                out.append({"ev": "EmitDone", "e": ev["e"]})
        elif k == "time":
            out.append({"ev": "Advance", "now": int(ev["now"]) if float(ev["now"]).is_integer() else -1})
        elif k == "end":
            out.append({"ev": "End"})
        if "obs" in ev and k != "end":
            o = ev["obs"]
            if "buf" in o:                                           # (private state: compared only if readable)
                out.append({"ev": "ObsBuf", "buf": o["buf"]})
            out.append({"ev": "ObsRc", "rc": o["rc"]})
    return out


def attribute(run, trace, idx):
    if idx > len(trace):
        return "C08", "end"
    ev = trace[idx - 1]
    k = ev["ev"]
    if k == "Tick" and ev.get("md") != ev.get("es"):
        return "C10", "batch %s was delivered with metadata %s (expected the members' metadata in member order)" % (ev.get("es"), ev.get("md"))
    if k in ("Tick", "Advance", "ObsBuf"):
        return "C08", "%s does not match the specification (batch content / tick time / buffer)" % k
    if k == "EmitRaised":
        return "C02", "emit raised %s" % ev.get("exc")
    if k == "EmitDone":
        return "C03", "emit completed at a point the specification does not allow"
    if k in ("TickRelease", "FiredElsewhere", "Arrive"):
        # premature iff a release precedes the completion of the batch's consumer
        busy = False
        for x in trace[:idx - 1]:
            if x["ev"] == "Tick":
                busy = run["cfg"]["cons"][0] != "sync"
            if x["ev"] == "ConsumerDone":
                busy = False
        if k == "TickRelease" and (busy or not any(x["ev"] == "Tick" and x["es"] == ev["es"] for x in trace[:idx - 1])) and ev.get("fired"):
            return "C04", "batch %s released (callbacks %s fired) before its consumer finished" % (ev["es"], ev["fired"])
        return "C05", "reference handling differs from the specification (%s %s)" % (k, ev)
    if k == "ObsRc":
        return "C05", "reference counts differ from the specification"
    return "C08", k


def consts_of(c):
    return dict(NE=c["max_elems"], Interval=amod.seconds(c["interval"]), SyncCons=c["cons"][0] == "sync", MaxTime=100000000,
                Unique="none" if c["kind"] == "timed_window" else c.get("keep", "first"), Mod=c.get("mod", 2),
                ReleaseEarly=False, Faults=bool(c.get("faults")))


def run(tier, seed, mutant=None, only_validate=False):
    work = os.path.join(core.WORK, "atwindow_%s_%d" % (tier, os.getpid()))
    os.makedirs(work, exist_ok=True)
    res = core.EngineResult("atwindow")
    ne = 4
    try:
        if not only_validate:
            for uniq in ("none", "first", "last"):
                for sync in ((False,) if tier == "quick" and uniq != "none" else (False, True)):
                    for interval in ((2,) if tier == "quick" else (1, 2, 3)):
                        r, rec = amod.mc(res, work, "AsyncTimedWindow", "%s_i%d_sync%d" % (uniq, interval, sync),
                                         dict(NE=ne, Interval=interval, SyncCons=sync, MaxTime=3 * interval, Unique=uniq, Mod=2,
                                              ReleaseEarly=False, Faults=not sync), INVS, workers=16)
                        amod.spec_violation(res, r, rec, INV_PROP, "C08", "timed_window")
            r, rec = amod.mc(res, work, "AsyncTimedWindow", "legacy_CbSafe",
                             dict(NE=2, Interval=2, SyncCons=False, MaxTime=4, Unique="none", Mod=2, ReleaseEarly=True, Faults=False), ["CbSafe"])
            rec["expected_violation"] = "CbSafe"
            rec["ok"] = r.violated == "CbSafe"
            if r.violated != "CbSafe":
                raise core.MachineryError("sensitivity run: early release in timed_window not refuted by CbSafe")
        cfgs = []
        for c in ("future", "coro", "sync"):
            cfgs.append({"kind": "timed_window", "interval": 2, "cons": [c], "max_elems": ne})
        for keep in ("first", "last"):
            for c in ("future", "sync"):
                cfgs.append({"kind": "timed_window_unique", "interval": 2, "keep": keep, "mod": 2, "cons": [c], "max_elems": ne})
        cfgs += [{"kind": "timed_window", "interval": "2d", "cons": ["sync"], "max_elems": 3}]
        cfgs += [{"kind": "timed_window", "interval": i, "cons": ["sync"], "max_elems": 3} for i in ("2.0s", "1min 1s")]
        cfgs += [{"kind": "timed_window", "interval": 2, "cons": ["future"], "max_elems": ne, "faults": True}]
        cfgs += [{"kind": "timed_window", "interval": 2, "cons": ["future"], "max_elems": ne, "feeder": "plain"}]
        # the input is disconnected and connected again: what has been accepted is still owed, and the window goes on ticking
        cfgs += [{"kind": "timed_window", "interval": 2, "cons": [c], "max_elems": ne, "disconnect": True, "reconnect": True}
                 for c in ("future", "sync")]
        cfgs += [{"kind": "timed_window", "interval": 2, "cons": ["future"], "max_elems": ne, "falsy": {"none": 2, "zero": 3}}]
        if tier != "quick":
            cfgs += [{"kind": "timed_window", "interval": 3, "cons": ["future"], "max_elems": ne},
                     {"kind": "timed_window_unique", "interval": 1, "keep": "last", "mod": 3, "cons": ["coro"], "max_elems": ne}]
        amod.node_engine(res, work, node="timed_window", trace_module="AsyncTimedWindowTrace", cfgs=cfgs, consts_of=consts_of,
                         adapt=adapt, attribute=attribute, seed=seed, depth=8 if tier == "quick" else 10,
                         limit=200 if tier == "quick" else 2500, nrandom=200 if tier == "quick" else 2000,
                         default_prop="C08", mutant=mutant,
                         nontrivial=lambda r, t: sum(1 for x in t if x["ev"] == "Tick" and x["es"]) >= 1 and any(x["ev"] == "Advance" for x in t))
        res.rule = ("atwindow: timed_window / timed_window_unique(first|last) x consumer style x schedules over {arrive, finish "
                    "consumer, one loop iteration, advance clock to next timer / by one unit}; non-trivial = a non-empty batch and a "
                    "clock advance; distinct by (configuration, schedule)")
    finally:
        shutil.rmtree(work, ignore_errors=True)
    return res


def canaries(tier, seed):
    r = run("quick", seed, mutant="timed_window_swap_late", only_validate=True)
    n = [v for v in r.violations if v["signature"].get("node") == "timed_window"]
    return [dict(name="mutant:timed_window_swap_late", detected=bool(n), rejected=len(n))]


TRACE_MODULE = "AsyncTimedWindowTrace"


def replay(v):
    import sys as _s
    return amod.replay_node(_s.modules[__name__], v)
