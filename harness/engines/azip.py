"""Engine 'azip': AsyncZip.tla -- zip(maxsize) with asynchronous producers (C02 pairing, C03 bound / wake-ups)."""
import os
import shutil
import sys

sys.path.insert(0, os.path.dirname(os.path.dirname(os.path.abspath(__file__))))
import core   # noqa: E402
import amod   # noqa: E402

INVS = ["ZipExact", "Bound", "NoLostWakeup"]
INV_PROP = {"ZipExact": "C02", "Bound": "C03", "NoLostWakeup": "C03"}


def adapt(run):
    sync = run["cfg"]["cons"][0] == "sync"
    src_of, n_of, cnt = {}, {}, {}
    out, cur, d2t, nt = [], None, {}, 0
    for ev in run["ev"]:
        k = ev["ev"]
        if k == "src":
            src_of[ev["e"]] = ev["src"]
            cnt[ev["src"]] = cnt.get(ev["src"], 0) + 1
            n_of[ev["e"]] = cnt[ev["src"]]
        elif k == "emit_call":
            cur = {"ev": "Arrive", "i": src_of[ev["e"]], "n": n_of[ev["e"]], "tuple": [], "mdok": True}
            out.append(cur)
        elif k == "emit_ret":
            cur = None
        elif k == "deliver":
            nt += 1
            d2t[ev["d"]] = nt
            tup = [n_of.get(x, -1) for x in ev["x"]]
            ok = ev["md"] == list(ev["x"]) and [src_of.get(x) for x in ev["x"]] == list(range(1, len(ev["x"]) + 1))
            if cur is not None:
                cur["tuple"] = tup
                cur["mdok"] = ok
            else:
                out.append({"ev": "LateTuple", "tuple": tup})
        elif k == "cons_done" and not sync:
            out.append({"ev": "ConsumerDone", "t": d2t.get(ev["d"], -1)})
        elif k == "emit_done":
            e = ev["e"]
            out.append({"ev": "EmitDone" if not ev.get("exc") else "EmitRaised", "i": src_of[e], "n": n_of[e]})
        elif k == "end":
            out.append({"ev": "End"})
        if "obs" in ev and k != "end" and "bufs" in ev["obs"]:
            out.append({"ev": "ObsBufs", "bufs": [[n_of.get(x, -1) for x in b] for b in ev["obs"]["bufs"]]})
    return out


def attribute(run, trace, idx):
    if idx > len(trace):
        return "C03", "end"
    ev = trace[idx - 1]
    k = ev["ev"]
    if k == "Arrive" and not ev.get("mdok", True):
        return "C10", "tuple %s delivered without exactly its members' metadata in member order" % ev.get("tuple")
    if k in ("Arrive", "LateTuple", "ObsBufs"):
        return "C02", "%s: elements paired / buffered differently from the specification (order, loss, duplication)" % k
    if k in ("EmitDone", "EmitRaised"):
        return "C03", "emit of element %s of input %s completed although its buffer had no room (or never completed)" % (ev.get("n"), ev.get("i"))
    if k == "End":
        return "C03", "blocked emits left at the end"
    return "C02", k


def run(tier, seed, mutant=None, only_validate=False):
    work = os.path.join(core.WORK, "azip_%s_%d" % (tier, os.getpid()))
    os.makedirs(work, exist_ok=True)
    res = core.EngineResult("azip")
    try:
        if not only_validate:
            for k, ms, mo in ((2, 1, 3), (2, 2, 3), (3, 1, 2)) + (((2, 1, 4), (3, 2, 3)) if tier != "quick" else ()):
                r, rec = amod.mc(res, work, "AsyncZip", "k%d_max%d_out%d" % (k, ms, mo),
                                 dict(K=k, NE=3 if tier == "quick" else 4, MaxSize=ms, SyncCons=False, MaxOut=mo, Recheck=True), INVS,
                                 workers=16, coverage=False, timeout=1800)
                amod.spec_violation(res, r, rec, INV_PROP, "C03", "zip")
            r, rec = amod.mc(res, work, "AsyncZip", "legacy_Bound", dict(K=2, NE=4, MaxSize=1, SyncCons=False, MaxOut=4, Recheck=False),
                             ["Bound"], coverage=False)
            rec["expected_violation"] = "Bound"
            rec["ok"] = r.violated == "Bound"
            if r.violated != "Bound":
                raise core.MachineryError("sensitivity run: notify_all without re-check not refuted by Bound")
        cfgs = []
        for nsrc, ms in ((2, 1), (2, 2), (3, 1)):
            for c in ("future", "sync"):
                cfgs.append({"kind": "zip", "nsrc": nsrc, "maxsize": ms, "cons": [c], "max_elems": 6})
        # a herd of producers blocked on one input (more of them than the zip has inputs), the other input delivering over
        # several loop iterations: every wake-up pattern between two tuples
        import itertools
        for c in ("sync", "future"):
            herd = ["e1 " * n1 + " ".join(q) + " s s s" for n1 in (4, 5) for q in itertools.product(("e2", "s"), repeat=6)]
            if c == "future":
                herd = ["e1 " * 4 + " ".join(q) + " s d s d s" for q in itertools.product(("e2", "s", "d"), repeat=5)]
            cfgs.append({"kind": "zip", "nsrc": 2, "maxsize": 1, "cons": [c], "max_elems": 10, "schedules": herd})
        amod.node_engine(res, work, node="zip", trace_module="AsyncZipTrace", cfgs=cfgs,
                         consts_of=lambda c: dict(K=c["nsrc"], NE=c["max_elems"], MaxSize=c["maxsize"], SyncCons=c["cons"][0] == "sync",
                                                  MaxOut=c["max_elems"], Recheck=True),
                         adapt=adapt, attribute=attribute, seed=seed, depth=6 if tier == "quick" else 8,
                         limit=250 if tier == "quick" else 2500, nrandom=250 if tier == "quick" else 2500, maxlen=16,
                         default_prop="C03", mutant=mutant,
                         nontrivial=lambda r, t: any(x["ev"] == "Arrive" and x["tuple"] for x in t))
        res.rule = ("azip: zip(2..3 inputs, maxsize 1..2) x consumer style x schedules over {input k emits, finish oldest / newest consumer, "
                    "one loop iteration} with un-awaited producers (several blocked emits per input possible); non-trivial = a tuple was emitted")
    finally:
        shutil.rmtree(work, ignore_errors=True)
    return res


TRACE_MODULE = "AsyncZipTrace"
consts_of = lambda c: dict(K=c['nsrc'], NE=c['max_elems'], MaxSize=c['maxsize'], SyncCons=c['cons'][0] == 'sync', MaxOut=c['max_elems'], Recheck=True)


def replay(v):
    import sys as _s
    return amod.replay_node(_s.modules[__name__], v)


def canaries(tier, seed):
    r = run("quick", seed, mutant="zip_notify_one", only_validate=True)
    n = [v for v in r.violations if v["signature"].get("kind") not in ("premature-callback", "parallelism-exceeded")]
    return [dict(name="mutant:zip_notify_one", detected=bool(n), rejected=len(n))]
