"""Engine 'sync': SyncFlow.tla (exhaustive TLC over the program catalogue) + real-code traces
validated by SyncFlowTrace.tla.  Serves C01, C10, C16 and the synchronous parts of C04/C05."""
import glob
import json
import os
import shutil
import sys

sys.path.insert(0, os.path.dirname(os.path.dirname(os.path.abspath(__file__))))
import core            # noqa: E402
import programs as P   # noqa: E402
import tlc             # noqa: E402
import tv              # noqa: E402

INVS = ["NodeContracts", "EdgeExact", "SiblingOrder", "MetadataFlat", "RcBalanced", "RcNonNegative",
        "CbExact", "CbSafe", "NeverCheckpointFailed", "RaisedIffInjected"]

# which property a rejected clause speaks about (plain traces); failure traces all belong to C16
CLAUSE_PROP = {
    "deliveries": "C01", "emissions": "C01", "node_state": "C01", "links": "C01",
    "deliveries_md": "C10", "emissions_md": "C10", "callbacks_early": "C04",
    "NodeContracts": "C01", "EdgeExact": "C01", "SiblingOrder": "C01",
    "MetadataFlat": "C10",
    "refcounts": "C05", "callbacks": "C05", "RcBalanced": "C05", "RcNonNegative": "C05",
    "CbExact": "C05", "NoResurrection": "C05", "CbSafe": "C04",
    "raised": "C16", "NeverCheckpointFailed": "C16", "RaisedIffInjected": "C16",
}
INV_PROP = dict(CLAUSE_PROP)


def _mc(work, tier, name, progs, max_emits, mdset, maxfail, res, timeout):
    d = os.path.join(work, "mc_" + name)
    os.makedirs(d, exist_ok=True)
    mod = os.path.join(d, "MCSyncFlow.tla")
    with open(mod, "w") as f:
        f.write("---- MODULE MCSyncFlow ----\nEXTENDS SyncFlow\nProgSet == %s\nValSet == 0 .. 2\nMdSet == %s\n====\n"
                % (P.progset_tla(progs), P.tla_val(set(mdset))))
    cfg = os.path.join(d, "MCSyncFlow.cfg")
    with open(cfg, "w") as f:
        f.write("SPECIFICATION Spec\nCONSTANTS\n  Programs <- ProgSet\n  Vals <- ValSet\n  MaxEmits = %d\n"
                "  MdChoices <- MdSet\n  MaxFail = %d\n" % (max_emits, maxfail))
        for i in INVS:
            f.write("INVARIANT %s\n" % i)
        f.write("PROPERTY NoResurrection\nCHECK_DEADLOCK FALSE\n")
    r = tlc.run(mod, cfg, d, workers=16, timeout=timeout, heap="12g")
    res.tlc_runs.append(dict(name="SyncFlow/" + name, states=r.distinct, transitions=r.generated, ok=r.ok,
                             violated=r.violated, wall_s=round(r.wall, 1), programs=len(progs),
                             constants=dict(MaxEmits=max_emits, Md=sorted(mdset), MaxFail=maxfail, Vals="0..2")))
    if not r.ok and not r.violated:
        # refuted nothing and did not finish: the property held on everything explored (recorded as incomplete); any other TLC
        # failure is a failure of the machinery, never a verdict
        if (r.error or "").startswith("timeout"):
            res.tlc_runs[-1]["incomplete"] = r.error
            res.tlc_runs[-1]["ok"] = None
        else:
            raise core.MachineryError("TLC failed on SyncFlow/%s: %s" % (name, (r.error or "")[:800]))
    elif not r.ok:
        prop = INV_PROP.get(r.violated or "", "C01")
        res.violations.append(dict(property=prop, clause=r.violated or "tlc-error", engine="sync",
                                   what="SyncFlow.tla itself violates %s (design-level counter-example)" % r.violated
                                   if r.violated else "TLC failed on SyncFlow: %s" % (r.error or "")[:300],
                                   detail=tlc.counterexample(r.out, 3000),
                                   signature=dict(kind="spec", clause=r.violated or "error")))
    shutil.rmtree(d, ignore_errors=True)
    return r


def _diff_kind(expected, st):
    """is a delivery/emission mismatch a data difference or only a metadata difference?"""
    try:
        clause, exp = expected[0], expected[1]
        got = st["dlog"] if clause == "deliveries" else st["elog"]
        if len(exp) != len(got):
            return "data"
        for a, b in zip(exp, got):
            a = list(a[:5]) if clause == "deliveries" else list(a)
            if clause == "deliveries":
                if a[:3] != b[:3]:
                    return "data"
                if a[3] != b[3]:
                    return "metadata"
            else:
                if a[:2] != b[:2]:
                    return "data"
                if a[2] != b[2]:
                    return "metadata"
        return "data"
    except Exception:
        return "data"


def _validate(work, what, res, mutant=None, only=None, tier="quick", seed=0):
    out = os.path.join(work, "traces_" + what + ("_" + mutant if mutant else ""))
    shutil.rmtree(out, ignore_errors=True)
    args = ["--tier", tier, "--seed", seed, "--out", out, "--shards", 8, "--what", what]
    if mutant:
        args += ["--mutant", mutant]
    if only:
        args += ["--only", only]
    rc, so, se = core.run_driver("sync_driver.py", args)
    if rc != 0:
        # the driver itself died on the real code: that is an observation about the code
        return dict(crash=se[-1500:]), {}, []
    meta = json.loads(so.strip().splitlines()[-1])
    files = sorted(glob.glob(os.path.join(out, "sync_%s_[0-9]*.json" % what)))
    traces = {}
    for f in files:
        with open(f) as fh:
            for t in json.load(fh):
                traces[t["id"]] = t
    results = tv.validate(os.path.join(tlc.SPECS, "SyncFlowTrace.tla"), os.path.join(tlc.SPECS, "SyncFlowTrace.cfg"),
                          files, out, timeout=1500)
    rej = []
    acc = 0
    state_only = 0
    for f, r in results:
        if r.error and "REJECT" not in r.out and "ACCEPT" not in r.out:
            raise core.MachineryError("trace validation failed to run on %s: %s" % (f, r.error[:800]))
        a, rj = tv.verdicts(r.out)
        ex = tv.expected(r.out)
        cl = tv.clauses(r.out)
        acc += len(a)
        # the validation goes on after a mismatch: collect, per trace, every clause on which it deviates (first step each).
        # node_state -- an observation of private attributes -- is optional evidence: a trace that deviates on nothing
        # else merely represents its state differently and is not reported.
        per = {}
        for tid, step, clause in rj:
            per.setdefault(tid, []).append((step, clause))
        for tid, lst in per.items():
            names, first = {}, None
            for step, clause in sorted(lst):
                cs = list(cl.get((tid, step), []))
                if clause not in cs and clause + "_md" not in cs:      # (Verdict does not tell data from metadata; AllClauses does)
                    cs.insert(0, clause)
                for c in cs:
                    names.setdefault(c, step)
                first = first or clause
            beh = {c: s_ for c, s_ in names.items() if c != "node_state"}
            if not beh:
                state_only += 1
                acc += 1
                continue
            for c, s_ in sorted(beh.items(), key=lambda kv: kv[1]):
                rej.append((traces[tid], s_, c, ex.get(tid) if c == first else None))
        if r.error:
            # an evaluation error inside a trace: the logged data has a shape the specification
            # cannot even evaluate -> attribute to the traces not yet judged in this shard
            judged = set(a) | set(t for t, _, _ in rj)
            with open(f) as fh:
                ids = [t["id"] for t in json.load(fh)]
            for tid in ids:
                if tid not in judged:
                    rej.append((traces[tid], 0, "unevaluable", ["unevaluable", r.error[:300]]))
                    break
    shutil.rmtree(out, ignore_errors=True)
    meta["accepted"] = acc
    meta["state_only"] = state_only
    return meta, traces, rej


def run(tier, seed):
    work = os.path.join(core.WORK, "sync_%s_%d" % (tier, os.getpid()))
    os.makedirs(work, exist_ok=True)
    res = core.EngineResult("sync")
    try:
        # ---- (M) the design: exhaustive TLC over the catalogue
        progs = P.catalogue(tier)
        if tier == "quick":
            _mc(work, tier, "contracts", progs, 3, {"two"}, 0, res, 600)
            _mc(work, tier, "metadata", progs[::3], 3, {"none", "one", "mixed"}, 0, res, 600)
            _mc(work, tier, "faults", progs[::2], 3, {"two"}, 1, res, 600)
        else:
            _mc(work, tier, "contracts", progs, 4, {"two"}, 0, res, 3000)
            _mc(work, tier, "metadata", progs, 3, {"none", "one", "two", "noref", "mixed"}, 0, res, 3000)
            _mc(work, tier, "faults", progs, 3, {"two"}, 2, res, 3000)
        # ---- (C) the code: traces of the real classes, validated against the specification
        for what in ("plain", "fail"):
            meta, traces, rej = _validate(work, what, res, tier=tier, seed=seed)
            if "crash" in meta:
                res.violations.append(dict(property="C01" if what == "plain" else "C16", clause="driver-crash",
                                           engine="sync", what="driver crashed on the real code: " + meta["crash"][-400:],
                                           signature=dict(kind="crash")))
                continue
            res.traces += meta["traces"]
            res.accepted += meta["accepted"]
            res.evaluations += meta["steps"]
            seen_progs = set()
            for t in traces.values():
                key = (t["name"], json.dumps([(s["ev"], s["e"], s["x"], s["failAt"]) for s in t["steps"]]))
                if key not in seen_progs and any(len(s["dlog"]) > 1 for s in t["steps"]):
                    seen_progs.add(key)
            res.nontrivial += len(seen_progs)
            for t in list(traces.values())[:2]:
                res.samples.append(dict(program=t["name"], calls=[(s["ev"], s["e"], s["x"], s["md"], s["failAt"])
                                                                  for s in t["steps"]],
                                        sinks=t["steps"][-1]["sinks"]))
            for t, step, clause, exp in rej:
                st = t["steps"][step - 1] if 0 < step <= len(t["steps"]) else None
                if what == "fail":
                    prop = "C16"
                else:
                    prop = CLAUSE_PROP.get(clause, "C01")
                    if clause in ("raised", "RaisedIffInjected", "unevaluable"):
                        prop = "C01"      # nothing was injected: the real code blew up on a well-typed program
                    if clause in ("deliveries", "emissions") and st is not None and _diff_kind(exp, st) == "metadata":
                        prop = "C10"
                    if clause == "NodeContracts" and exp is None:
                        prop = "C01"
                node_kinds = sorted(set(n["kind"] for n in t["prog"]))
                res.violations.append(dict(
                    property=prop, clause=clause, engine="sync",
                    what="program %s: after call %d the real code differs from SyncFlow in clause '%s'"
                         % (t["name"], step, clause),
                    signature=dict(kind="trace", clause=clause, program=t["name"]),
                    replay=dict(engine="sync", program=t["prog"], name=t["name"],
                                ops=[(s["ev"], s["e"], s["x"], s["md"], s["failAt"]) for s in t["steps"]],
                                step=step, clause=clause, expected=exp, observed=st, kinds=node_kinds)))
        res.rule = ("sync: catalogue programs (all 1-node chains, 2-node chains, join/fan-out/feedback templates, sampled "
                    "3-node chains) x all input sequences of length 3/4 over {0,1,2} per entry point + random longer "
                    "runs; a trace is non-trivial if some call causes >= 2 deliveries; distinct by (program, calls)")
        # ---- binding canaries
        res.canaries += canaries(work, seed)
    finally:
        shutil.rmtree(work, ignore_errors=True)
    return res


def canaries(work, seed):
    out = []
    # (a) an in-memory mutant of the real class must be rejected
    for mutant, only in (("partition_off", "chain:partition_2"), ("emit_skip_release", "fanout3"),
                         ("batch_filter_drop", "batch:partition_2")):
        r2 = core.EngineResult("x")
        meta, traces, rej = _validate(work, "plain", r2, mutant=mutant, only=only, tier="quick", seed=seed)
        out.append(dict(name="mutant:" + mutant, detected=bool(rej),
                        traces=meta.get("traces", 0), rejected=len(rej)))
    # (b) a corrupted log field of an otherwise accepted trace must be rejected
    r2 = core.EngineResult("x")
    meta, traces, rej = _validate(work, "plain", r2, mutant="corrupt_log", only="chain:map_inc", tier="quick", seed=seed)
    out.append(dict(name="corrupt-logged-field", detected=bool(rej), traces=meta.get("traces", 0), rejected=len(rej)))
    return out


def replay(v):
    """re-execute the program and calls of a violation on the current tree and validate them again"""
    rp = v.get("replay") or {}
    if "program" not in rp:
        print("this violation carries no replayable scenario (design-level counter-example):")
        print((v.get("detail") or "")[:1500])
        return 2
    work = os.path.join(core.WORK, "replay_%d" % os.getpid())
    os.makedirs(work, exist_ok=True)
    try:
        ex = os.path.join(work, "explicit.json")
        with open(ex, "w") as f:
            json.dump([[rp["name"], rp["program"], rp["ops"]]], f)
        out = os.path.join(work, "t")
        rc, so, se = core.run_driver("sync_driver.py", ["--out", out, "--shards", 1, "--what", "plain", "--explicit", ex, "--only", "@@none@@"])
        if rc != 0:
            print("driver failed:", se[-800:])
            return 2
        files = sorted(glob.glob(os.path.join(out, "sync_plain_*.json")))
        results = tv.validate(os.path.join(tlc.SPECS, "SyncFlowTrace.tla"), os.path.join(tlc.SPECS, "SyncFlowTrace.cfg"), files, out)
        for f, r in results:
            a, rj = tv.verdicts(r.out)
            ex2 = tv.expected(r.out)
            if rj:
                tid, step, clause = rj[0]
                print("REPLAY: program %s: after call %d the real code differs from SyncFlow in clause '%s'" % (rp["name"], step, clause))
                print("   expected by the specification:", json.dumps(ex2.get(tid))[:1200])
                with open(f) as fh:
                    t = json.load(fh)[0]
                st = t["steps"][step - 1] if 0 < step <= len(t["steps"]) else {}
                print("   observed:", json.dumps({k: st.get(k) for k in ("raised", "dlog", "nst", "rc", "cbs")})[:1200])
                print("VIOLATION property=%s replay=%s" % (v.get("property"), "(replayed)"))
                return 1
            if a:
                print("REPLAY: program %s with %d calls is accepted by SyncFlowTrace on the current tree" % (rp["name"], len(rp["ops"])))
                return 0
        print("REPLAY: no verdict")
        return 2
    finally:
        shutil.rmtree(work, ignore_errors=True)
