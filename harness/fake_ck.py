"""In-memory stand-in for the part of the confluent_kafka client API that streamz.sources uses.
One broker per process: logs per (topic, partition), committed offsets per (group, topic, partition).
Every call that matters for C09 is appended to CALLS."""
OFFSET_INVALID = -1001


class Broker:
    def __init__(self):
        self.reset()

    def reset(self):
        self.logs = {}          # topic -> list of partitions -> list of (key, value)
        self.committed = {}     # (group, topic, partition) -> offset
        self.calls = []

    def create(self, topic, nparts):
        self.logs[topic] = [[] for _ in range(nparts)]

    def add_partition(self, topic):
        self.logs[topic].append([])

    def produce(self, topic, partition, value, key=None):
        log = self.logs[topic][partition]
        log.append((key, value))
        return len(log) - 1


BROKER = Broker()


class KafkaException(Exception):
    pass


class KafkaError(Exception):
    pass


class TopicPartition:
    def __init__(self, topic, partition=-1, offset=OFFSET_INVALID):
        self.topic = topic
        self.partition = partition
        self.offset = offset

    def __repr__(self):
        return "TopicPartition(%r, %r, %r)" % (self.topic, self.partition, self.offset)


class Message:
    def __init__(self, topic, partition, offset, key, value):
        self._t, self._p, self._o, self._k, self._v = topic, partition, offset, key, value

    def value(self):
        return self._v

    def key(self):
        return self._k

    def offset(self):
        return self._o

    def partition(self):
        return self._p

    def topic(self):
        return self._t

    def error(self):
        return None


class _PartitionMeta:
    def __init__(self, i):
        self.id = i


class _TopicMeta:
    def __init__(self, n):
        self.partitions = {i: _PartitionMeta(i) for i in range(n)}


class _ClusterMeta:
    def __init__(self, topics):
        self.topics = topics


class Consumer:
    def __init__(self, params):
        self.params = dict(params)
        self.group = params.get("group.id", "g")
        self.assigned = []        # [topic, partition, next offset]
        self.closed = False
        BROKER.calls.append(("consumer", self.group, params.get("enable.auto.commit"), params.get("auto.offset.reset")))

    def subscribe(self, topics):
        # group subscription: every partition of the topics, from the group's committed offset, else from the reset position
        # (an explicit assign() afterwards replaces it)
        self.assigned = []
        for t in topics:
            for p, log in enumerate(BROKER.logs.get(t, [])):
                off = BROKER.committed.get((self.group, t, p))
                if off is None:
                    off = 0 if self.params.get("auto.offset.reset") == "earliest" else len(log)
                self.assigned.append([t, p, off])
        self.subscribed = True
        self.joining = True

    def unsubscribe(self):
        pass

    def assign(self, tps):
        self.assigned = [[tp.topic, tp.partition, max(tp.offset, 0)] for tp in tps]
        BROKER.calls.append(("assign", [(tp.topic, tp.partition, tp.offset) for tp in tps]))

    def poll(self, timeout=None):
        if getattr(self, "joining", False):
            self.joining = False        # (the first poll after subscribe() only joins the group)
            return None
        for a in self.assigned:
            topic, p, off = a
            log = BROKER.logs.get(topic, [])
            if p < len(log) and off < len(log[p]):
                k, v = log[p][off]
                a[2] = off + 1
                if getattr(self, "subscribed", False) and str(self.params.get("enable.auto.commit", "true")).lower() != "false":
                    BROKER.committed[(self.group, topic, p)] = off + 1      # auto-commit (idealised: at once)
                return Message(topic, p, off, k, v)
        return None

    def get_watermark_offsets(self, tp, timeout=None, cached=False):
        log = BROKER.logs.get(tp.topic)
        if log is None or tp.partition >= len(log) or tp.partition < 0:
            raise KafkaException("unknown partition %r" % (tp,))
        return 0, len(log[tp.partition])

    def list_topics(self, topic=None, timeout=None):
        return _ClusterMeta({t: _TopicMeta(len(parts)) for t, parts in BROKER.logs.items()})

    def committed(self, tps, timeout=None):
        BROKER.calls.append(("committed", self.group, len(tps)))
        return [TopicPartition(tp.topic, tp.partition, BROKER.committed.get((self.group, tp.topic, tp.partition), OFFSET_INVALID))
                for tp in tps]

    def commit(self, message=None, offsets=None, asynchronous=True):
        for tp in offsets or []:
            BROKER.committed[(self.group, tp.topic, tp.partition)] = tp.offset
            BROKER.calls.append(("commit", self.group, tp.topic, tp.partition, tp.offset))

    def close(self):
        self.closed = True


class Producer:
    def __init__(self, params):
        self.params = params
        self.pending = []

    def produce(self, topic, value, callback=None, **kw):
        if topic not in BROKER.logs:
            BROKER.create(topic, 1)
        off = BROKER.produce(topic, 0, value)
        if callback is not None:
            self.pending.append((callback, Message(topic, 0, off, None, value)))

    def poll(self, timeout=0):
        p, self.pending = self.pending, []
        for cb, m in p:
            cb(None, m)
        return len(p)

    def flush(self, timeout=-1):
        self.poll(0)
