#!/venv/bin/python
"""regenerates /verif/MANIFEST.json from harness/props.py"""
import json
import os
import sys
sys.path.insert(0, os.path.dirname(os.path.abspath(__file__)))
import props

VERIF = os.path.dirname(os.path.dirname(os.path.abspath(__file__)))
ALL = ["C%02d" % i for i in range(1, 21)]
NOT_YET = getattr(props, "NOT_CLAIMED", {})

checks = []
for pid in ALL:
    if pid not in props.PROPS:
        continue
    p = props.PROPS[pid]
    checks.append({
        "property_id": pid,
        "quick_cmd": "./check %s --tier quick" % pid,
        "thorough_cmd": "./check %s --tier thorough" % pid,
        "evidence_file": "/verif/evidence/%s.json" % pid,
        "replay_cmd_template": "./check %s --replay {path}" % pid,
        "engine": "+".join(p["engines"]),
        "level_claimed": {"category": "model_checking", "text": p["text"], "design_ref": "DESIGN.md section " + p["design"]},
        "level_note": p["note"],
        "technique": p["technique"],
    })
na = [{"property_id": pid, "reason": NOT_YET.get(pid, "check not built yet in this session (planned in DESIGN.md section 5)")}
      for pid in ALL if pid not in props.PROPS]
m = {
    "version": 1,
    "setup_cmd": "true",
    "hooks": {
        "guard": "STREAMZ_VERIF",
        "enable": "no source hooks are needed: drivers observe through Stream subclasses, RefCounter instances and method "
                  "wrappers installed in the driver process; the harness sets STREAMZ_VERIF=1 for drivers (reserved)",
        "baseline_off_cmd": "cd /repo && /venv/bin/python -m pytest -ra -q -p no:cacheprovider --timeout=900 --continue-on-collection-errors",
        "source_commits": [],
        "add_only": True,
    },
    "engines": [
        {"name": e, "path": "harness/engines/%s.py" % e,
         "serves_properties": [pid for pid in ALL if pid in props.PROPS and e in props.PROPS[pid]["engines"]],
         "kind_free_text": "TLA+ specification checked by TLC + conformance (trace validation / behaviour replay) against the real code"}
        for e in sorted(set(x for p in props.PROPS.values() for x in p["engines"]))],
    "checks": checks,
    "not_applicable": na,
    "notes": "All checks are ./check <ID>; VERIF_SEED and VERIF_TIER are honoured; engine results are cached per tree content hash.",
}
with open(os.path.join(VERIF, "MANIFEST.json"), "w") as f:
    json.dump(m, f, indent=1)
print("claimed", [c["property_id"] for c in checks], "unclaimed", [n["property_id"] for n in na])
