"""In-memory mutants of streamz classes used as binding canaries: a check that does not notice
one of these is a machinery failure.  Applied inside the driver process only (never written to /repo)."""
import inspect
import textwrap


def mutate(cls, meth, old, new):
    f = cls.__dict__[meth]
    f = getattr(f, "__wrapped__", f) if not hasattr(f, "__code__") else f
    src = textwrap.dedent(inspect.getsource(f))
    if old not in src:
        raise RuntimeError("canary mutant does not apply: %s.%s %r" % (cls.__name__, meth, old))
    src = src.replace(old, new, 1)
    mod = inspect.getmodule(cls)
    ns = {}
    exec(compile(src, "<mutant %s.%s>" % (cls.__name__, meth), "exec"), mod.__dict__, ns)
    setattr(cls, meth, ns[meth])


def apply(name):
    from streamz import core as c
    from streamz import sources as s
    table = {
        "partition_off": lambda: mutate(c.partition, "update", "if len(buffer) == self.n:", "if len(buffer) == self.n + 1:"),
        "emit_skip_release": lambda: mutate(c.Stream, "_emit", "self._release_refs(metadata)", "pass"),
        "unique_lru": lambda: mutate(c.unique, "update", "self.seen.insert(0, y)", "self.seen.append(y)"),
        "buffer_release_early": lambda: mutate(c.buffer, "cb", "        yield self._emit(x, metadata=metadata)\n        self._release_refs(metadata)\n",
                                               "        self._release_refs(metadata)\n        yield self._emit(x, metadata=metadata)\n"),
        "latest_no_notify": lambda: mutate(c.latest, "update", "self.loop.add_callback(self.condition.notify)", "pass"),
        "rate_limit_no_reserve": lambda: mutate(c.rate_limit, "update", "self.next = max(now, self.next) + self.interval", "self.next = now + self.interval"),
        "timed_window_swap_late": lambda: mutate(c.timed_window, "cb", "L, self._buffer = self._buffer, []", "L = list(self._buffer)"),
        "textfile_drop_tail": lambda: mutate(s.from_textfile, "_run", "self.buffer = parts.pop(-1)", "parts.pop(-1); self.buffer = ''"),
        "partition_no_cancel": lambda: mutate(c.partition, "update", "self._callbacks[key].cancel()", "pass"),
        "map_drop_result": lambda: mutate(c.map, "update", "return self._emit(result, metadata=metadata)", "self._emit(result, metadata=metadata)"),
        "no_inherit_loop": lambda: mutate(c.Stream, "_set_loop", "self.loop = upstream.loop", "pass"),
        "disconnect_one_sided": lambda: mutate(c.Stream, "disconnect", "downstream._remove_upstream(self)", "pass"),
        "zip_notify_one": lambda: mutate(c.zip, "update", "self.condition.notify_all()", "self.condition.notify()"),
        "map_async_no_lock": lambda: mutate(c.map_async, "_insert_job", "async with self._insert_lock:", "if True:"),
        "source_start_always": lambda: mutate(s.Source, "start", "if self.stopped:", "if True:"),
    }
    if name == "df_count_size":
        from streamz.dataframe import aggregations as ag
        mutate(ag.Count, "on_new", "result = acc + new.count()", "result = acc + new.size")
        return
    if name == "kafka_commit_offset":
        from streamz import sources as so
        mutate(so.FromKafkaBatched, "poll_kafka", "_tp = ck.TopicPartition(topic, part_no, offset + 1)", "_tp = ck.TopicPartition(topic, part_no, offset)")
        return
    if name == "dask_gather_no_wait":
        from streamz import dask as sd
        mutate(sd.gather, "update", "result2 = yield self._emit(result, metadata=metadata)", "result2 = self._emit(result, metadata=metadata)")
        return
    if name == "batch_filter_drop":
        import streamz.batch as sb
        sb._filter = lambda seq, predicate: list(filter(predicate, seq))[1:]      # Batch.filter loses the first survivor of every batch
        return
    if name == "corrupt_log":
        return
    table[name]()
