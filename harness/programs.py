"""Program catalogue shared by the TLA+ specification SyncFlow and the real-code drivers.

A program is a list of node dicts (1-based node ids = construction order = attachment order):
  kind, f, n, m, k, b1, b2, ups (list of node ids), lits, eon
The same structure is rendered as a TLA+ record (to_tla) and built from real streamz classes
(harness/build.py).  Types keep generated programs well-typed:
  'i'  int,  't2' tuple of exactly two ints,  'tv' tuple of ints (any length, maybe empty),
  'o'  anything else (nested tuples)
"""
import itertools
import random

DEFAULT = dict(f="none", n=0, m=0, k=1, b1=False, b2=False, ups=[], lits=[], eon=[])


def node(kind, **kw):
    d = dict(DEFAULT)
    d["kind"] = kind
    d.update(kw)
    d["ups"] = list(d["ups"])
    d["lits"] = list(d["lits"])
    d["eon"] = list(d["eon"])
    return d


# ---------------------------------------------------------------------------------------------
# unary node variants: (label, node kwargs, accepted input types, output type function)

def _same(t):
    return t


def _const(t):
    return lambda _t: t


def _part_out(n):
    def f(t):
        if t == "i":
            return "t2" if n == 2 else "tv"
        return "o"
    return f


ANY = ("i", "t2", "tv", "o")

UNARY = [
    ("map_inc", dict(kind="map", f="inc"), ("i",), _same),
    ("map_dbl", dict(kind="map", f="dbl"), ("i",), _same),
    ("map_id", dict(kind="map", f="id"), ANY, _same),
    ("map_pair", dict(kind="map", f="pair"), ("i",), _const("t2")),
    ("map_wrap", dict(kind="map", f="wrap"), ANY, lambda t: "tv" if t == "i" else "o"),
    ("map_rep", dict(kind="map", f="rep"), ("i",), _const("tv")),
    ("map_fst", dict(kind="map", f="fst"), ("t2",), _const("i")),
    ("starmap_add2", dict(kind="starmap", f="add2"), ("t2",), _const("i")),
    ("starmap_tup", dict(kind="starmap", f="tup"), ("t2", "tv"), _same),
    ("filter_even", dict(kind="filter", f="even"), ("i",), _same),
    ("filter_lt2", dict(kind="filter", f="lt2"), ("i",), _same),
    ("filter_true", dict(kind="filter", f="true"), ANY, _same),
    ("remove_even", dict(kind="filter", f="odd"), ("i",), _same),           # .remove(even)
    ("remove_lt2", dict(kind="filter", f="ge2"), ("i",), _same),            # .remove(lt2)
    ("acc_add", dict(kind="accumulate", f="add"), ("i",), _same),
    ("acc_add_start", dict(kind="accumulate", f="add", lits=[["i", 1]]), ("i",), _same),
    ("acc_max", dict(kind="accumulate", f="max"), ("i",), _same),
    ("scan_add", dict(kind="accumulate", f="add", m=1), ("i",), _same),     # .scan(add)
    ("frequencies", dict(kind="accumulate", f="freq", lits=[["t", []]]), ("i",), _const("d")),      # Stream.frequencies()
    ("acc_addrs", dict(kind="accumulate", f="addrs", b1=True, lits=[["i", 0]]), ("i",), _same),
    ("acc_add_ws", dict(kind="accumulate", f="add", b2=True), ("i",), _const("t2")),
    ("acc_addrs_ws", dict(kind="accumulate", f="addrs", b1=True, b2=True, lits=[["i", 0]]), ("i",), _const("t2")),
    ("slice_all", dict(kind="slice", n=0, m=-1, k=1), ANY, _same),
    ("slice_1_none_2", dict(kind="slice", n=1, m=-1, k=2), ANY, _same),
    ("slice_0_2_1", dict(kind="slice", n=0, m=2, k=1), ANY, _same),
    ("slice_1_3_1", dict(kind="slice", n=1, m=3, k=1), ANY, _same),
    ("slice_0_3_2", dict(kind="slice", n=0, m=3, k=2), ANY, _same),
    ("slice_2_none_1", dict(kind="slice", n=2, m=-1, k=1), ANY, _same),
    ("slice_0_0_1", dict(kind="slice", n=0, m=0, k=1), ANY, _same),
    ("slice_1_1_1", dict(kind="slice", n=1, m=1, k=1), ANY, _same),
    ("partition_1", dict(kind="partition", n=1), ANY, _part_out(1)),
    ("partition_2", dict(kind="partition", n=2), ANY, _part_out(2)),
    ("partition_3", dict(kind="partition", n=3), ANY, _part_out(3)),
    ("partition_2_mod2", dict(kind="partition", n=2, f="mod2"), ("i",), _const("t2")),
    ("partition_1_mod2", dict(kind="partition", n=1, f="mod2"), ("i",), _const("tv")),
    ("punique_2_id_first", dict(kind="partition_unique", n=2, f="id"), ANY, _part_out(2)),
    ("punique_2_id_last", dict(kind="partition_unique", n=2, f="id", b1=True), ANY, _part_out(2)),
    ("punique_2_mod2_first", dict(kind="partition_unique", n=2, f="mod2"), ("i",), _const("t2")),
    ("punique_2_mod2_last", dict(kind="partition_unique", n=2, f="mod2", b1=True), ("i",), _const("t2")),
    ("punique_1_id_first", dict(kind="partition_unique", n=1, f="id"), ANY, _part_out(1)),
    ("punique_3_id_last", dict(kind="partition_unique", n=3, f="id", b1=True), ANY, _part_out(3)),
    ("sliding_1", dict(kind="sliding_window", n=1, b1=True), ANY, _part_out(1)),
    ("sliding_2_partial", dict(kind="sliding_window", n=2, b1=True), ANY, _part_out(3)),
    ("sliding_2_full", dict(kind="sliding_window", n=2, b1=False), ANY, _part_out(2)),
    ("sliding_3_partial", dict(kind="sliding_window", n=3, b1=True), ANY, _part_out(3)),
    ("sliding_3_full", dict(kind="sliding_window", n=3, b1=False), ANY, _part_out(3)),
    ("unique", dict(kind="unique", f="id", m=0, b1=True), ANY, _same),
    ("unique_max1", dict(kind="unique", f="id", m=1, b1=True), ANY, _same),
    ("unique_max2", dict(kind="unique", f="id", m=2, b1=True), ANY, _same),
    ("unique_mod2", dict(kind="unique", f="mod2", m=0, b1=True), ("i",), _same),
    ("unique_list", dict(kind="unique", f="id", m=0, b1=False), ANY, _same),
    ("unique_list_max1", dict(kind="unique", f="id", m=1, b1=False), ANY, _same),
    ("unique_list_max2", dict(kind="unique", f="id", m=2, b1=False), ANY, _same),
    ("flatten", dict(kind="flatten"), ("t2", "tv"), _const("i")),
    ("concat", dict(kind="flatten", b1=True), ("t2", "tv"), _const("i")),   # .concat()
    ("pluck_0", dict(kind="pluck", lits=[0]), ("t2",), _const("i")),
    ("pluck_1", dict(kind="pluck", lits=[1]), ("t2",), _const("i")),
    ("pluck_list", dict(kind="pluck", lits=[1, 0], b1=True), ("t2",), _const("t2")),
    ("pluck_list1", dict(kind="pluck", lits=[1], b1=True), ("t2",), _const("tv")),      # a list pick of length one yields a 1-tuple
    ("pluck_list3", dict(kind="pluck", lits=[0, 1, 0], b1=True), ("t2",), _const("tv")),
    # streamz/batch.py: the Batch collection over lists / tuples of ints ("lv": list of ints, "lp": list of pairs)
    ("batch_map_inc", dict(kind="map", f="b_inc"), ("t2", "tv", "lv"), _const("lv")),
    ("batch_map_pair", dict(kind="map", f="b_pair"), ("t2", "tv", "lv"), _const("lp")),
    ("batch_filter_even", dict(kind="map", f="b_even"), ("t2", "tv", "lv"), _const("lv")),
    ("batch_pluck_1", dict(kind="map", f="b_pl1"), ("lp",), _const("lv")),
    ("batch_sum", dict(kind="accumulate", f="bsum", lits=[["i", 0]]), ("t2", "tv", "lv"), _const("i")),
    ("batch_to_stream", dict(kind="flatten", f="batch"), ("lv", "t2", "tv"), _const("i")),
    ("collect", dict(kind="collect"), ANY, _part_out(3)),
    ("collect_max2", dict(kind="collect", m=2), ANY, _part_out(3)),
    ("union1", dict(kind="union"), ANY, _same),
    ("stream", dict(kind="stream"), ANY, _same),
]
# a frequency table ("d": a dict -- unhashable, iterating it yields its keys) may flow through the nodes that neither hash nor
# unpack what they carry
_OPAQUE = {"map_id", "filter_true", "slice_all", "slice_1_none_2", "slice_0_2_1", "slice_1_3_1", "partition_1", "partition_2", "partition_3",
           "sliding_1", "sliding_2_partial", "sliding_2_full", "sliding_3_partial", "collect", "collect_max2", "union1", "stream"}
UNARY = [(lab, kw, (acc + ("d",)) if lab in _OPAQUE else acc, out) for (lab, kw, acc, out) in UNARY]
# lists of ints / of pairs pass through the nodes that do not look inside (and come apart in flatten)
_LISTS = {"map_id", "filter_true", "slice_1_none_2", "partition_2", "sliding_2_partial", "collect", "union1", "stream", "flatten", "unique_list"}
UNARY = [(lab, kw, (acc + ("lv", "lp")) if lab in _LISTS else acc, out) for (lab, kw, acc, out) in UNARY]
UNARY_BY_LABEL = {u[0]: u for u in UNARY}


def chain(labels, sink_each=False):
    """source -> variants... -> sink ; returns program or None when ill-typed"""
    prog = [node("stream")]
    t = "i"
    last = 1
    for lab in labels:
        _, kw, acc, outf = UNARY_BY_LABEL[lab]
        if t not in acc:
            return None
        prog.append(node(ups=[last], **kw))
        last = len(prog)
        t = outf(t)
        if sink_each:
            # (a sink next to the following transformer: every intermediate stream is observed)
            prog.append(node("sink", f="ok", ups=[last]))
    if not sink_each:
        prog.append(node("sink", f="ok", ups=[last]))
    return prog


def chains(maxlen, labels=None):
    labels = labels or [u[0] for u in UNARY]
    out = []
    for L in range(1, maxlen + 1):
        for combo in itertools.product(labels, repeat=L):
            p = chain(combo)
            if p is not None:
                out.append(("chain:" + ">".join(combo), p))
    return out


# ---------------------------------------------------------------------------------------------
# branching / joining templates

def _sink(prog, up):
    prog.append(node("sink", f="ok", ups=[up]))


def templates():
    T = []
    S = lambda: node("stream")
    # fan-out: two and three sinks on one node, one of them behind a transformer
    p = [S()]; p.append(node("map", f="inc", ups=[1])); _sink(p, 1); _sink(p, 2); _sink(p, 1)
    T.append(("fanout3", p))
    # diamond through zip / union / combine_latest / zip_latest
    for kind, extra in [("zip", {}), ("union", {}), ("combine_latest", {"eon": [1, 2]}),
                        ("combine_latest", {"eon": [1]}), ("combine_latest", {"eon": [2]}),
                        ("zip_latest", {})]:
        p = [S(), node("map", f="inc", ups=[1]), node("filter", f="even", ups=[1])]
        p.append(node(kind, ups=[2, 3], **extra)); _sink(p, 4)
        T.append(("diamond_%s_%s" % (kind, "".join(map(str, extra.get("eon", [])))), p))
        p = [S(), node("map", f="dbl", ups=[1]), node("accumulate", f="add", ups=[1])]
        p.append(node(kind, ups=[3, 2], **extra)); _sink(p, 4)      # upstream order != construction order
        T.append(("diamond_rev_%s_%s" % (kind, "".join(map(str, extra.get("eon", [])))), p))
    # two (three) independent sources joined
    for kind, extra in [("zip", {}), ("union", {}), ("combine_latest", {"eon": [1, 2]}),
                        ("combine_latest", {"eon": [2]}), ("zip_latest", {})]:
        p = [S(), S()]; p.append(node(kind, ups=[1, 2], **extra)); _sink(p, 3)
        T.append(("join2_%s_%s" % (kind, "".join(map(str, extra.get("eon", [])))), p))
    for kind, extra in [("zip", {}), ("combine_latest", {"eon": [1, 2, 3]}), ("combine_latest", {"eon": [1, 3]}),
                        ("zip_latest", {}), ("union", {})]:
        p = [S(), S(), S()]; p.append(node(kind, ups=[1, 2, 3], **extra)); _sink(p, 4)
        T.append(("join3_%s_%s" % (kind, "".join(map(str, extra.get("eon", [])))), p))
    # zip(maxsize=1): in a synchronous pipeline nobody waits, an input may run ahead as far as it likes
    p = [S(), S()]; p.append(node("zip", ups=[1, 2], m=1)); _sink(p, 3)
    T.append(("join2_zip_max1", p))
    p = [S(), node("map", f="inc", ups=[1]), node("partition", n=2, ups=[1])]
    p.append(node("zip", ups=[2, 3], m=1)); _sink(p, 4)
    T.append(("diamond_zip_max1_partition", p))
    # zip with literals at several positions
    for lits in ([[0, ["i", 7]]], [[1, ["i", 7]]], [[2, ["i", 7]]], [[0, ["i", 7]], [3, ["i", 8]]],
                 [[1, ["i", 7]], [2, ["i", 8]]]):
        p = [S(), S()]; p.append(node("zip", ups=[1, 2], lits=lits)); _sink(p, 3)
        T.append(("zip_lits_%s" % "_".join(str(l[0]) for l in lits), p))
    p = [S()]; p.append(node("zip", ups=[1], lits=[[1, ["i", 9]]])); _sink(p, 2)
    T.append(("zip1_lit", p))
    # joins feeding stateful nodes, and stateful nodes feeding joins
    p = [S(), S(), node("zip", ups=[1, 2]), node("starmap", f="add2", ups=[3]),
         node("partition", n=2, ups=[4])]; _sink(p, 5); _sink(p, 3)
    T.append(("zip_starmap_partition", p))
    p = [S(), S(), node("partition", n=2, ups=[1]), node("combine_latest", ups=[3, 2], eon=[1, 2])]; _sink(p, 4)
    T.append(("partition_combine", p))
    p = [S(), S(), node("sliding_window", n=2, b1=True, ups=[1]), node("zip_latest", ups=[2, 3])]; _sink(p, 4)
    T.append(("sliding_ziplatest", p))
    p = [S(), S(), node("union", ups=[1, 2]), node("unique", f="id", m=0, b1=True, ups=[3]),
         node("collect", ups=[4])]; _sink(p, 5); _sink(p, 4)
    T.append(("union_unique_collect", p))
    p = [S(), node("slice", n=0, m=2, k=1, ups=[1]), node("map", f="inc", ups=[1]),
         node("zip", ups=[2, 3])]; _sink(p, 4); _sink(p, 1)
    T.append(("slice_sibling_zip", p))
    # two collectors side by side: flushing one leaves what the other holds (and its references) alone
    p = [S(), node("collect", ups=[1]), node("map", f="inc", ups=[1]), node("collect", ups=[3])]; _sink(p, 2); _sink(p, 4)
    T.append(("two_collects", p))
    p = [S(), node("collect", b1=True, ups=[1]), node("map", f="inc", ups=[1]), node("collect", b1=True, ups=[3])]; _sink(p, 2); _sink(p, 4)
    T.append(("two_collects_own_cache", p))
    # feedback edge guarded by unique: s -> union(s, g) -> unique -> map(dbl)=g -> back into union
    p = [S(), node("union", ups=[1, 4]), node("unique", f="id", m=0, b1=True, ups=[2]),
         node("map", f="dm3", ups=[3])]; _sink(p, 3)
    T.append(("feedback_unique", p))
    p = [S(), node("union", ups=[1, 4]), node("unique", f="mod2", m=0, b1=True, ups=[2]),
         node("map", f="inc", ups=[3])]; _sink(p, 4); _sink(p, 2)
    T.append(("feedback_unique_mod2", p))
    # feedback through stateful nodes (re-entrant update): accumulate, slice, sliding_window
    p = [S(), node("union", ups=[1, 5]), node("accumulate", f="add", lits=[["i", 0]], ups=[2]),
         node("filter", f="pos", ups=[3]), node("filter", f="lt2", ups=[4])]; _sink(p, 3)
    T.append(("feedback_accumulate", p))
    p = [S(), node("union", ups=[1, 5]), node("accumulate", f="add", ups=[2]),
         node("filter", f="pos", ups=[3]), node("filter", f="lt2", ups=[4])]; _sink(p, 3); _sink(p, 2)
    T.append(("feedback_accumulate_nostart", p))
    p = [S(), node("union", ups=[1, 6]), node("unique", f="id", m=0, b1=True, ups=[2]),
         node("slice", n=0, m=-1, k=2, ups=[3]), node("map", f="inc", ups=[4]),
         node("filter", f="lt2", ups=[5])]; _sink(p, 4); _sink(p, 3)
    T.append(("feedback_slice", p))
    # the Batch collection: chains of Batch operations behind a partition, and map_partitions over two collections
    for labs in (["partition_2", "batch_map_inc", "batch_filter_even", "batch_sum"],
                 ["partition_3", "batch_map_pair", "batch_pluck_1", "batch_to_stream"],
                 ["sliding_2_partial", "batch_filter_even", "batch_map_inc", "flatten"],
                 ["map_rep", "batch_map_inc", "batch_sum"]):
        T.append(("batch:" + ">".join(labs), chain(labs, sink_each=True)))
    p = [S(), S(), node("partition", n=2, ups=[1]), node("map", f="rep", ups=[2]),
         node("zip", f="batch", ups=[3, 4]), node("starmap", f="cat", ups=[5])]; _sink(p, 6)
    p.append(node("map", f="b_inc", ups=[6])); _sink(p, 8)
    T.append(("batch_map_partitions2", p))
    # flatten / pluck behind joins
    p = [S(), S(), node("zip", ups=[1, 2]), node("flatten", ups=[3]), node("pluck", lits=[1, 0], b1=True, ups=[3])]
    _sink(p, 4); _sink(p, 5)
    T.append(("zip_flatten_pluck", p))
    return T


def catalogue(tier):
    progs = []
    progs += chains(1)
    core2 = ["map_inc", "filter_even", "acc_add", "slice_1_none_2", "slice_0_2_1", "partition_2",
             "partition_2_mod2", "punique_2_mod2_first", "punique_2_id_last", "sliding_2_partial",
             "sliding_2_full", "unique", "unique_max1", "unique_list_max1", "flatten", "map_pair",
             "pluck_1", "pluck_list1", "frequencies", "batch_map_inc", "batch_filter_even", "batch_sum", "batch_to_stream", "remove_even", "concat", "scan_add", "collect", "collect_max2", "starmap_add2", "map_rep", "acc_add_ws"]
    if tier == "quick":
        progs += [c for c in chains(2, core2) if c[0].count(">") == 1]
    else:
        progs += [c for c in chains(2) if c[0].count(">") == 1]
    progs += templates()
    return progs


def sample_chains(rng, count, maxlen=3):
    labels = [u[0] for u in UNARY]
    out = []
    tries = 0
    while len(out) < count and tries < count * 50:
        tries += 1
        L = rng.randint(2, maxlen)
        combo = [rng.choice(labels) for _ in range(L)]
        p = chain(combo, sink_each=rng.random() < 0.3)
        if p is not None:
            out.append(("chain:" + ">".join(combo), p))
    return out


# ---------------------------------------------------------------------------------------------
# TLA+ rendering

def tla_val(v):
    """JSON-ish value -> TLA+ text (lists -> tuples, str -> string, bool, int)"""
    if isinstance(v, bool):
        return "TRUE" if v else "FALSE"
    if isinstance(v, int):
        return str(v)
    if isinstance(v, str):
        return '"%s"' % v
    if isinstance(v, (list, tuple)):
        return "<<" + ", ".join(tla_val(x) for x in v) + ">>"
    if isinstance(v, (set, frozenset)):
        return "{" + ", ".join(tla_val(x) for x in sorted(v)) + "}"
    if isinstance(v, dict):
        return "[" + ", ".join("%s |-> %s" % (k, tla_val(x)) for k, x in sorted(v.items())) + "]"
    raise TypeError(v)


def node_tla(nd):
    d = dict(nd)
    d["eon"] = set(d["eon"])
    return tla_val(d)


def prog_tla(prog):
    return "<<" + ",\n     ".join(node_tla(n) for n in prog) + ">>"


def progset_tla(progs):
    return "{\n  " + ",\n  ".join(prog_tla(p) for _, p in progs) + "\n}"


def prog_json(prog):
    """for trace files: eon as a list (TLC JSON has no sets; the trace spec converts)"""
    return [dict(n) for n in prog]
