"""Registry: which engines decide which property, and how violations are attributed."""

PROPS = {
    "C01": dict(engines=["sync"], design="5/C01",
                technique="TLA+ spec SyncFlow (TLC exhaustive over program catalogue) + trace validation of the real node classes against it",
                text="TLC checks the list-level contracts (NodeContracts, EdgeExact, SiblingOrder) on SyncFlow.tla for every "
                     "catalogue program x every input sequence (bounded); every public call of thousands of real-code runs is "
                     "validated against the same specification (deliveries, emissions, node state, links) and the contracts are "
                     "evaluated in every state of every recorded trace.",
                note="Trusted: TLC; the encoding/projection functions in harness/build.py; programs limited to the catalogue "
                     "(chains <= 3 nodes, join/fan-out/feedback templates), values 0..2, <= 8 calls per trace."),
    "C10": dict(engines=["sync"], design="5/C10",
                technique="TLA+ spec SyncFlow metadata contracts (TLC) + trace validation of real metadata arguments",
                text="The contracts of SyncFlow.tla include the metadata of every emission (member order, flatness, last-piece "
                     "rule); TLC proves them on the design for all metadata shapes (none/one/two/no-ref/mixed) and the metadata "
                     "argument of every real update()/_emit() call is compared with the specification's.",
                note="Trusted: TLC; enc_md projection (nested lists / None are mapped to invalid tags so they cannot match)."),
    "C16": dict(engines=["sync"], design="5/C16",
                technique="TLA+ spec SyncFlow with fault injection (Call/failAt) + trace validation of real runs with raising user functions",
                text="EmitAt(e, x, md, failAt) aborts the push at the chosen user-function invocations exactly as Python unwinds; TLC "
                     "checks RaisedIffInjected, NeverCheckpointFailed and the node contracts with failed offers removed; real runs with "
                     "injected exceptions are validated call by call (raised?, node state, later deliveries, counters).",
                note="Trusted: TLC; the failure plan counter shared by the Python user functions; only synchronous hand-offs "
                     "(asynchronous consumers are covered by the async engines)."),
}

# violations found by an engine shared between properties are attributed by v['property']
