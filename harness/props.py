"""Registry: which engines decide which property, and how violations are attributed."""

PROPS = {
    "C01": dict(engines=["sync", "atopo"], design="5/C01",
                technique="TLA+ spec SyncFlow (TLC exhaustive over program catalogue) + trace validation of the real node classes against it",
                text="TLC checks the list-level contracts (NodeContracts, EdgeExact, SiblingOrder) on SyncFlow.tla for every "
                     "catalogue program x every input sequence (bounded); every public call of thousands of real-code runs is "
                     "validated against the same specification (deliveries, emissions, node state, links) and the contracts are "
                     "evaluated in every state of every recorded trace.  Pipelines that are still being put together while data flows "
                     "(branches attached / detached between emissions) are covered by the emissions of the Topology traces.",
                note="Trusted: TLC; the encoding/projection functions in harness/build.py; programs limited to the catalogue "
                     "(chains <= 3 nodes, join/fan-out/feedback templates), values 0..2, <= 8 calls per trace."),
    "C10": dict(engines=["sync", "abuffer", "atwindow", "apartition", "aemit", "azip", "amapasync"], design="5/C10",
                technique="TLA+ spec SyncFlow metadata contracts (TLC) + trace validation of real metadata arguments",
                text="The contracts of SyncFlow.tla include the metadata of every emission (member order, flatness, last-piece "
                     "rule); TLC proves them on the design for all metadata shapes (none/one/two/no-ref/mixed) and the metadata "
                     "argument of every real update()/_emit() call is compared with the specification's.",
                note="Trusted: TLC; enc_md projection (nested lists / None are mapped to invalid tags so they cannot match)."),
    "C16": dict(engines=["sync", "athread", "adf", "aemit"], design="5/C16",
                technique="TLA+ spec SyncFlow with fault injection (Call/failAt) + trace validation of real runs with raising user functions",
                text="EmitAt(e, x, md, failAt) aborts the push at the chosen user-function invocations exactly as Python unwinds; TLC "
                     "checks RaisedIffInjected, NeverCheckpointFailed and the node contracts with failed offers removed; real runs with "
                     "injected exceptions are validated call by call (raised?, node state, later deliveries, counters); ThreadSync.tla covers the "
                     "transport of a failure from the loop thread to the caller of a blocking emit (raises iff the consumer raised).",
                note="Trusted: TLC; the failure plan counter shared by the Python user functions; only synchronous hand-offs "
                     "(asynchronous consumers are covered by the async engines)."),
}

PROPS["C14"] = dict(engines=["alatest", "alatestthr"], design="5/C14",
    technique="TLA+ spec AsyncLatest (TLC exhaustive incl. liveness, legacy algorithm refuted as sensitivity check) + trace validation of the real latest node under enumerated schedules on a virtual-time loop",
    text="AsyncLatest.tla models update/notify/cb with every notify a separately scheduled step; TLC checks Subsequence, NewestDelivered "
         "(state form) and NewestEventually (liveness under weak fairness) for all interleavings of <= 5 arrivals with a slow consumer; "
         "about a thousand schedules of the real node (Future / coroutine / synchronous consumers) are validated event by event against it.  "
         "Threaded operation: ThreadLatest.tla models the wake-up protocol between a pushing thread and the loop thread (NoLostWakeup, "
         "NewestDelivered under fairness; a notify from the pushing thread is refuted); real runs with the loop in streamz' background "
         "thread and pushes by emit(x, asynchronous=True) from another thread are validated against it.",
    note="Trusted: TLC; virtual-time loop (harness/vloop.py); RunNotify/CbWait are silent steps inferred by TLC; one producer; threaded runs: "
         "event-gated waits, 'never comes out' = not within 10 s.")
PROPS["C13"] = dict(engines=["arate", "abuffer"], design="5/C13",
    technique="TLA+ spec AsyncRateLimit (TLC exhaustive over arrival-time patterns) + trace validation of the real rate_limit/delay nodes with virtual timestamps",
    text="AsyncRateLimit.tla models the reservation taken before sleeping and deadline-ordered timers on an integer clock; TLC checks "
         "Spacing, Order, NoLoss, NoNeedlessDelay, OnTime for all arrival patterns of 4 elements; real runs on the virtual clock are validated "
         "against it with exact integer timestamps. delay() is covered by AsyncBuffer (order, count).",
    note="Trusted: TLC; virtual clock (time only advances while the loop is idle = timers fire on time); integer intervals.")
PROPS["C02"] = dict(engines=["abuffer", "arate", "atwindow", "apartition", "aemit", "amapasync", "azip", "acomposite"], design="5/C02",
    technique="TLA+ specs of the asynchronous nodes (AsyncBuffer, AsyncRateLimit, ...) checked by TLC for all interleavings + trace validation of the real nodes under enumerated schedules",
    text="Per node module TLC checks Lossless/Conservation/Order (exactly once, arrival order, complete at quiescence) over all interleavings "
         "of producers, forwarding coroutine and consumer (Future, native coroutine, synchronous); every recorded schedule of the real node "
         "must be a behaviour of its module.",
    note="Trusted: TLC; virtual-time loop; node-level pipelines source -> node -> recording consumer.")
PROPS["C03"] = dict(engines=["abuffer", "arate", "atwindow", "apartition", "aemit", "amapasync", "azip", "athread", "asource", "asrcfile"], design="5/C03",
    technique="TLA+ specs of the asynchronous nodes with emit awaitables (putDone/emitDone) checked by TLC incl. liveness + trace validation",
    text="AsyncBuffer.tla models tornado's bounded Queue (parked putters); TLC checks Bound, ParkedNotDone, NoStuckEmit and the liveness "
         "property EmitsComplete under weak fairness; emit_done events of real runs are validated against the model.  Threaded operation: "
         "ThreadSync.tla models sync(): producer threads, the loop thread's FIFO callback queue, the shared thread-local flag; TLC checks "
         "WaitsForConsumer, NoSpuriousError, PerProducerOrder and the liveness property AllReturn; real blocking emits from 2-3 threads "
         "with consumers completed jointly by the driver are validated against it.  Sources: SourceLoop.tla (OneInFlight) and TextFile.tla "
         "(OneAtATime: each record's emit is awaited before the next record or read) with the consumer's completions in the traces.",
    note="Trusted: TLC; virtual-time loop for same-loop operation; real threads with event-gated scripts for threaded operation "
         "(no wall-clock assertion can fail on a correct tree: waits are bounded below by events, above by generous time-outs).")
PROPS["C04"] = dict(engines=["sync", "abuffer", "alatest", "arate", "atwindow", "apartition", "aemit", "amapasync", "acomposite", "adask"], design="5/C04",
    technique="TLA+ specs carrying reference counts with the data (CbSafe invariant) checked by TLC + trace validation of instrumented RefCounters",
    text="Every module carries rc/fired next to the data; CbSafe (callback scheduled => element not stored, sleeping, or at an unfinished consumer) "
         "is checked by TLC on the design and evaluated on every recorded trace of the real nodes; known deviations are listed in known_findings.json.",
    note="Trusted: TLC; RefCounter subclass whose loop is the event log (the real retain/release code runs).")
PROPS["C05"] = dict(engines=["sync", "abuffer", "alatest", "arate", "atwindow", "apartition", "aemit", "amapasync", "acomposite", "adask"], design="5/C05",
    technique="TLA+ specs with holder-based balance invariants (RcBalanced/RcBalance/CbExact/NoResurrection) checked by TLC + trace validation of counter values",
    text="Counts are compared with the holder multiset derived from the list-level contracts (SyncFlow) or from the stored data (async modules) in every "
         "state; the counter values of real runs are logged after every operation and compared with the specification's.",
    note="Trusted: TLC; projection of RefCounter.count.")

PROPS["C08"] = dict(engines=["atwindow", "apartition"], design="5/C08",
    technique="TLA+ specs AsyncTimedWindow / AsyncPartition with an integer clock (TLC exhaustive over arrival-time patterns) + trace validation of the real nodes with virtual timestamps",
    text="TLC checks BatchExact / Conservation (each element in exactly one batch, arrival order), SizeBound, NoEmptyBatch, PartialOnlyOnTimeout, "
         "Deadline and NoOverdue (with the time blocked by downstream accounted) for all arrival patterns relative to the ticks / timeouts; recorded "
         "runs of timed_window, timed_window_unique (first/last) and partition(n, timeout, key) on the virtual clock are validated event by event.",
    note="Trusted: TLC; virtual clock advanced only while the loop is idle (timers fire on time); integer intervals; <= 5 elements, <= 3 keys.")

PROPS["C18"] = dict(engines=["asource", "asrcfile"], design="5/C18",
    technique="TLA+ spec SourceLoop (pool of run-loop instances, start/stop as environment actions at every suspension point; TLC exhaustive) + trace validation of real from_periodic / from_iterable / from_kafka / user-defined sources under enumerated start/stop histories",
    text="TLC checks AtMostOneActive, InOrderOnce, OneInFlight, NoCycleWhileStopped, PollSpacing and the idempotence action properties for all placements of "
         "<= 6 start/stop calls; the unguarded start() of the pinned tree is refuted as a sensitivity check; recorded runs of the real sources are validated with the "
         "loop-instance steps inferred by TLC.  The non-batched Kafka source (a polling loop and a start() of its own) is a third kind of the "
         "specification (polling), driven over an in-memory confluent_kafka; its pre-fix start() and do-while loop are refuted on every run.",
    note="Trusted: TLC; virtual-time loop; sources are given an explicit loop (see C19); from_iterable over an iterator; in-memory Kafka client "
         "(group subscription, idealised auto-commit).")

PROPS["C17"] = dict(engines=["asrcfile"], design="5/C17",
    technique="TLA+ specs TextFile / Filenames (TLC exhaustive over texts, chunkings and poll placements) + trace validation of the real from_textfile / filenames sources on real files under a virtual clock",
    text="TLC checks Conservation, WholeRecords, TailHeld and Exact for every text of <= 7 characters over {x, newline, |}, every chunking into writes of 1-2 characters, "
         "every placement of polls and three delimiters (single, two different, doubled character), with and without from_end; thousands of runs of the real source "
         "on a scratch file (byte-level writes between polls) are validated with the read() step inferred by TLC; filenames likewise (ExactlyOnce, SortedPerPoll).",
    note="Trusted: TLC; virtual-time loop; local filesystem semantics of the sandbox; ASCII text (the multi-byte case is known finding F17).")

PROPS["C19"] = dict(engines=["aloop"], design="5/C19",
    technique="TLA+ spec LoopBinding (transcription of Stream.__init__ percolation; TLC exhaustive over construction sequences) + trace validation of real constructor calls for all argument combinations and every loop-requiring class",
    text="TLC checks OneLoopPerPipeline, OneModePerPipeline, Inherits, AsyncStaysOnCaller, AsyncNeverStartsBG, FallbackBG, ExplicitLoop and ConflictRaises for "
         "all sequences of <= 4 constructor calls (upstreams x loop none/L1/L2 x asynchronous None/True/False x ensure_io_loop); every recorded construction on the "
         "real classes (generic Stream, 7 loop-requiring nodes, 8 source classes) must reproduce the specification's loop/mode of every node, whether it raised, "
         "and whether the background loop was requested.",
    note="Trusted: TLC; loop identity projection (L1/L2 fresh IOLoops, CUR = IOLoop.current(), BG = streamz' shared loop); joins of pipelines already bound to "
         "different loops without an explicit argument are outside the statement (marked dirty and not judged).")

PROPS["C15"] = dict(engines=["atopo"], design="5/C15",
    technique="TLA+ spec Topology (connect/disconnect/destroy/drop-reference actions over SyncFlow's data-flow step; TLC exhaustive over edit histories) + trace validation of real editing histories (links, liveness via weak references + gc, combiner state, deliveries)",
    text="TLC checks LinksConsistent, NoDanglingLinks, NoParallelEdges, CombinerShape, SinksStay, ForgottenCollected and the action property "
         "DeliveriesFollowEdges for all histories of <= 3 edits interleaved with <= 2 emissions on 6 initial graphs; ZipNoCompleteTuple is "
         "refuted on purpose (known finding F13b); hundreds of random editing histories on the real classes are validated operation by operation.",
    note="Trusted: TLC; projection through weak references after gc.collect(); only operations the specification's guards allow are driven "
         "(no parallel edges, no cycles, held nodes only).")

_DFNOTE = 'Trusted: TLC; pandas as the numeric oracle on the concatenation (three parties must agree: real pipeline, pandas, DFAgg); exact rationals from floats via limit_denominator; small integer values, NaN, <= 3 keys, integer-hour timestamps; floating-point accuracy is not a target.'
PROPS["C06"] = dict(engines=["adf"], design="5/C06",
    technique="TLA+ spec DFAgg (transcription of Aggregation.initial/on_new, accumulator, groupby_accumulator vs list-level pandas definitions; TLC exhaustive over batch sequences) + trace validation of real streaming-dataframe pipelines with pandas as third party",
    text="TLC checks Matches (emitted value == pandas definition on everything seen) for sum/count/size/mean/var/value_counts and groupby sum/count/size/mean/var over all "
         "sequences of <= 4 batches of <= 2 rows incl. empty batches and NaN; the pre-fix Mean is refuted as sensitivity check; thousands of real runs (Series and frames, column "
         "and streaming-series grouper, filter/assignment in front) must agree with both pandas on the concatenation and the specification after every batch.",
    note=_DFNOTE)
PROPS["C07"] = dict(engines=["adf"], design="5/C07",
    technique="TLA+ spec DFAgg window part (diff_iloc / diff_loc / on_old / size-state pruning transcribed; TLC exhaustive) + trace validation of real window(n) / window(value) pipelines against it and against pandas on the window slice",
    text="TLC checks Matches for row windows N=1..3 and time windows T=1..3 (batches smaller / equal / larger than the window, empty batches, keys entering and leaving) for "
         "sum/count/size/mean/var/value_counts and windowed groupby; real runs are validated step by step.",
    note=_DFNOTE)
PROPS["C11"] = dict(engines=["adf"], design="5/C11",
    technique="TLA+ spec DFAgg carry-over part (rolling_accumulator, _cumulative_accumulator, diff_expanding, EWMean recurrence vs whole-table definitions; TLC exhaustive over all splits) + trace validation of real rolling / cumulative / expanding / ewm pipelines",
    text="TLC checks Concatenated (concatenation of per-batch results == one-pass pandas definition) for rolling sum/count/mean/min/max (row and time windows), "
         "cumsum/cumprod/cummin/cummax, expanding aggregations and EwmLast (closed-form exponentially weighted mean); the pre-fix cumulative carry is refuted as sensitivity check.",
    note=_DFNOTE + " median/quantile/std are pandas' own whole-table operators and are not modelled; ewm with missing values is outside the model.")
PROPS["C12"] = dict(engines=["adf"], design="5/C12",
    technique="TLA+ spec DFAgg with a second pipeline seeded at a cut (CutHere / Resumed invariant; TLC exhaustive over cut points) + trace validation of real restart scenarios (state exposed by with_state=True / read from accumulate, fresh pipeline with start=state, both fed on)",
    text="In the specification the resumed copy is stepped in lock step after every possible cut; on the real code the state object emitted after batch k is handed, uncopied, to a "
         "fresh pipeline and both pipelines receive the remaining batches (original first, so aliasing shows); the resumed outputs are validated against the specification.",
    note=_DFNOTE)

PROPS["C09"] = dict(engines=["akafka"], design="5/C09",
    technique="TLA+ spec KafkaBatched (broker, source incarnation, in-flight batches, crash enabled in every state; TLC exhaustive) + trace validation of the real FromKafkaBatched / get_message_batch against an in-memory confluent_kafka under crash/restart histories",
    text="TLC checks Contiguous, StartsAtSeed, BelowHighWatermark, SizeLimit, CommitAfterProcess and AtLeastOnce (no unprocessed message behind the committed offset at any crash) "
         "for all production histories, partition additions, completion orders (in order per partition) and a crash after every event, for earliest/latest x refresh_partitions x "
         "max_batch_size; the necessity of the in-order proviso is demonstrated by a counter-example; the real source is driven against a fake client on the virtual loop and "
         "every emitted range, completion, commit call and position vector is validated.",
    note="Trusted: TLC; harness/fake_ck.py (in-memory implementation of the client calls the source makes); a consumer that holds the batch's references until the driver "
         "lets it finish (consumers reached only through synchronous hand-offs fall under known finding F06-emit, not C09).")

PROPS["C20"] = dict(engines=["adask"], design="5/C20",
    technique="TLA+ spec DaskFlow (per-call scatter/gather coroutines, tasks finishing in any order; TLC exhaustive incl. liveness) + trace validation of real scatter()...gather() pipelines on an in-process distributed cluster with gated task completion",
    text="TLC checks ExactlyOnce, Lossless, SameOrder, CallOrder, CbSafe, RcBalance and the liveness property AllDelivered for all task completion orders, for producers that await their emits "
         "and for buffered segments; for fire-and-forget producers gather's call order is checked and the emission order is shown to depend on the unordered scatter calls; real pipelines "
         "(map, map+buffer, map.map, accumulate, starmap, zip, keyword arguments between scatter and gather) are run with every forced completion order and validated event by event, sink "
         "values being mapped to element ids through the results of the same segment run locally; segments combining several elements (sliding_window, partition, zip of two sources, "
         "union of two branches, buffer+sliding_window) are judged by the Observer monitor against their local twin (values, order, callbacks never early / once, held elements).",
    note="Trusted: TLC; the in-process distributed cluster (real event loop: event-gated, no wall-clock assertions); gates implemented with threading.Event inside the submitted functions; "
         "3-4 elements per scenario.")

# violations found by an engine shared between properties are attributed by v['property']
