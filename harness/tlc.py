"""Thin runner around TLC (tla2tools.jar): exhaustive / simulate / trace-validation modes."""
import os
import re
import shutil
import subprocess
import time
import uuid

JAR = "/opt/veriftools/tla/tla2tools.jar"
COMMUNITY = "/opt/veriftools/tla/CommunityModules-deps.jar"
SPECS = os.path.join(os.path.dirname(os.path.dirname(os.path.abspath(__file__))), "specs")


def _classpath():
    cp = [JAR]
    d = os.path.dirname(JAR)
    for f in sorted(os.listdir(d)):
        if f.endswith(".jar") and os.path.join(d, f) != JAR:
            cp.append(os.path.join(d, f))
    return ":".join(cp)


class TLCResult:
    def __init__(self):
        self.ok = False            # completed without any error
        self.violated = None       # name of violated invariant / property, if any
        self.error = None          # other error text (evaluation error, parse error, timeout)
        self.generated = 0
        self.distinct = 0
        self.depth = 0
        self.wall = 0.0
        self.out = ""
        self.coverage = {}         # action name -> (distinct, total) where available
        self.prints = []           # lines printed by PrintT (raw)
        self.cmd = ""

    def summary(self):
        return dict(ok=self.ok, violated=self.violated, error=self.error, generated=self.generated,
                    distinct=self.distinct, depth=self.depth, wall_s=round(self.wall, 2))


def run(module, cfg, workdir, workers=8, mode="bfs", timeout=900, extra=None, java_opts=None,
        coverage=False, env_extra=None, heap="6g", deadlock=False):
    """module: path to the root .tla (its directory and SPECS are searched); cfg: path to .cfg"""
    os.makedirs(workdir, exist_ok=True)
    meta = os.path.join(workdir, "meta_%d_%s" % (os.getpid(), uuid.uuid4().hex[:12]))
    lib = os.pathsep.join([SPECS, os.path.dirname(os.path.abspath(module))])
    cmd = ["java", "-Xmx" + heap, "-XX:+UseParallelGC", "-DTLA-Library=" + lib]
    if java_opts:
        cmd += list(java_opts)
    cmd += ["-cp", _classpath(), "tlc2.TLC", "-workers", str(workers), "-metadir", meta, "-noGenerateSpecTE",
            "-config", cfg]
    if not deadlock:
        cmd += ["-deadlock"]          # -deadlock DISABLES deadlock checking
    if coverage:
        cmd += ["-coverage", "1"]
    if extra:
        cmd += list(extra)
    cmd += [module]
    env = dict(os.environ)
    env.pop("JAVA_TOOL_OPTIONS", None)
    if env_extra:
        env.update(env_extra)
    r = TLCResult()
    r.cmd = " ".join(cmd)
    t0 = time.time()
    try:
        p = subprocess.run(cmd, cwd=os.path.dirname(os.path.abspath(module)), env=env, stdout=subprocess.PIPE,
                           stderr=subprocess.STDOUT, timeout=timeout, text=True, errors="replace")
        out = p.stdout
        rc = p.returncode
    except subprocess.TimeoutExpired as e:
        out = (e.stdout or b"")
        if isinstance(out, bytes):
            out = out.decode(errors="replace")
        rc = -9
        r.error = "timeout after %ss" % timeout
        subprocess.run(["pkill", "-f", meta], check=False)
    r.wall = time.time() - t0
    r.out = out
    shutil.rmtree(meta, ignore_errors=True)
    _parse(r, out, rc, mode)
    return r


_RE_STATES = re.compile(r"(\d+) states generated, (\d+) distinct states found")
_RE_DEPTH = re.compile(r"The depth of the complete state graph search is (\d+)")
_RE_INV = re.compile(r"Error: Invariant (\S+) is violated")
_RE_ACT = re.compile(r"Error: Action property (\S+) is violated")
_RE_COV = re.compile(r"^<(\w+) line \d+, col \d+ to line \d+, col \d+ of module (\w+)>: (\d+):(\d+)", re.M)


def _parse(r, out, rc, mode):
    m = None
    for m in _RE_STATES.finditer(out):
        pass
    if m:
        r.generated, r.distinct = int(m.group(1)), int(m.group(2))
    m = _RE_DEPTH.search(out)
    if m:
        r.depth = int(m.group(1))
    for m in _RE_COV.finditer(out):
        r.coverage[m.group(1)] = (int(m.group(3)), int(m.group(4)))
    m = _RE_INV.search(out)
    if m:
        r.violated = m.group(1)
    m = _RE_ACT.search(out)
    if m and not r.violated:
        r.violated = m.group(1)
    if "Temporal properties were violated" in out and not r.violated:
        r.violated = "temporal"
    if "Error: Deadlock reached" in out and not r.violated:
        r.violated = "deadlock"
    if r.violated is None and r.error is None:
        if "Model checking completed. No error has been found." in out or \
           (mode == "simulate" and "Error:" not in out):
            r.ok = True
        else:
            idx = out.find("Error:")
            r.error = out[idx:idx + 1500] if idx >= 0 else "TLC exit %s: %s" % (rc, out[-800:])


def counterexample(out, maxlen=6000):
    """the textual error trace of a TLC run"""
    i = out.find("Error:")
    return out[i:i + maxlen] if i >= 0 else ""
