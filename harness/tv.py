"""helpers for batch trace validation"""
import re, sys
sys.path.insert(0,'/verif/harness')
import tlc
def validate(spec, cfg, files, workdir, timeout=900, par=8):
    import concurrent.futures as cf
    def one(f):
        return f, tlc.run(spec, cfg, workdir, workers=1, env_extra={'TRACE_FILE': f}, timeout=timeout, heap='3g')
    with cf.ThreadPoolExecutor(par) as ex:
        return list(ex.map(one, files))
RE_ACC = re.compile(r'<<"ACCEPT", (\d+)>>')
RE_REJ = re.compile(r'<<"REJECT", (\d+), (\d+), "(\w+)">>')
def verdicts(out):
    return [int(x) for x in RE_ACC.findall(out)], [(int(a), int(b), c) for a, b, c in RE_REJ.findall(out)]

# (TLC wraps a tuple that is longer than a line: one element per line, "<< " with a blank)
RE_CL = re.compile(r'<<\s*"CLAUSES",\s*(\d+),\s*(\d+),\s*<<(.*?)>>\s*>>', re.S)
def clauses(out):
    """(trace id, step) -> names of all the clauses on which that step differs"""
    d = {}
    for a, b, c in RE_CL.findall(out):
        d[(int(a), int(b))] = re.findall(r'"(\w+)"', c)
    return d

RE_EXP = re.compile(r'<<\s*"EXPECTED",\s*(\d+),\s*"(.*)"\s*>>')
def expected(out):
    import json
    d = {}
    for a, b in RE_EXP.findall(out):
        try:
            d[int(a)] = json.loads(b.encode().decode('unicode_escape'))
        except Exception:
            d[int(a)] = b
    return d
