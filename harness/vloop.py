"""Deterministic virtual-time event loop for driving streamz's asynchronous nodes.

A subclass of asyncio.SelectorEventLoop with a null selector whose clock is a number the driver
controls.  Tornado's IOLoop.current() wraps it, so gen.coroutine, tornado Queue/Condition,
call_later and native coroutines all run on it unmodified.

Driver-level choice points:
    loop.do(fn, *args)   perform an environment action now (as if inside a callback)
    loop.step()          run exactly one loop iteration (asyncio batch semantics are kept)
    loop.advance()       move the clock to the next timer deadline (or by dt)
Time never advances on its own unless loop.auto is set.
"""
import asyncio
import heapq
import selectors
import sys
import threading
from asyncio import events


class _NullSelector(selectors.BaseSelector):
    def __init__(self):
        self._map = {}
        self.loop = None

    def register(self, fileobj, events_, data=None):
        key = selectors.SelectorKey(fileobj, fileobj if isinstance(fileobj, int) else fileobj.fileno(), events_, data)
        self._map[key.fd] = key
        return key

    def unregister(self, fileobj):
        fd = fileobj if isinstance(fileobj, int) else fileobj.fileno()
        return self._map.pop(fd)

    def modify(self, fileobj, events_, data=None):
        self.unregister(fileobj)
        return self.register(fileobj, events_, data)

    def select(self, timeout=None):
        if self.loop is not None:
            self.loop._on_select(timeout)
        return []

    def get_map(self):
        return self._map

    def get_key(self, fileobj):
        fd = fileobj if isinstance(fileobj, int) else fileobj.fileno()
        return self._map[fd]

    def close(self):
        self._map.clear()


class VLoop(asyncio.SelectorEventLoop):
    def __init__(self):
        self._vt = 0.0
        self.auto = False
        self.idle = False
        self.iterations = 0
        sel = _NullSelector()
        super().__init__(selector=sel)
        sel.loop = self
        self._clock_resolution = 1e-9

    # -- clock
    def time(self):
        return self._vt

    def _write_to_self(self):
        pass

    def _on_select(self, timeout):
        self.idle = False
        if timeout is None:
            self.idle = True
        elif timeout > 0:
            if self.auto:
                self._vt += timeout
            else:
                self.idle = True

    # -- stepping
    def _enter(self):
        self._check_closed()
        self._thread_id = threading.get_ident()
        self._old = events._get_running_loop()
        events._set_running_loop(self)

    def _exit(self):
        self._thread_id = None
        events._set_running_loop(self._old)

    def do(self, fn, *a, **k):
        """environment action, executed as if inside a loop callback"""
        self._enter()
        try:
            return fn(*a, **k)
        finally:
            self._exit()

    def live_ready(self):
        return sum(1 for h in self._ready if not h._cancelled)

    def step(self):
        """one iteration; returns the number of callbacks that were ready (and so ran)"""
        n = self.live_ready()
        self._enter()
        try:
            self._run_once()
        finally:
            self._exit()
        self.iterations += 1
        return n

    def step1(self):
        """run exactly one ready callback (the head of the FIFO queue).  Environment actions placed between two such steps
        happen where a callback queued at that point of the same iteration would run."""
        while self._ready:
            h = self._ready.popleft()
            if h._cancelled:
                continue
            self._enter()
            try:
                h._run()
            finally:
                self._exit()
            return 1
        return 0

    def next_timer(self):
        ws = [h._when for h in self._scheduled if not h._cancelled]
        return min(ws) if ws else None

    def due(self):
        """timers whose deadline has been reached but which have not run yet"""
        return sum(1 for h in self._scheduled if not h._cancelled and h._when < self._vt + self._clock_resolution)

    def advance(self, dt=None):
        """advance the clock to the next timer (or by dt); returns the new time"""
        if dt is None:
            nt = self.next_timer()
            if nt is None:
                return self._vt
            self._vt = max(self._vt, nt)
        else:
            self._vt += dt
        return self._vt

    def quiescent(self):
        return self.live_ready() == 0 and self.due() == 0

    def drain(self, max_iter=10000, timers=False, until=None):
        """run iterations until nothing is ready (optionally also firing timers)"""
        n = 0
        while n < max_iter:
            if self.live_ready() or self.due():
                self.step()
                n += 1
                continue
            if timers and self.next_timer() is not None and (until is None or self.next_timer() <= until):
                self.advance()
                continue
            break
        return n


_installed = {}


def install():
    """create a VLoop, make it current for asyncio and tornado, and point streamz's and tornado's
    clock reads at it"""
    import tornado.ioloop
    import streamz.core as score
    loop = VLoop()
    asyncio.set_event_loop(loop)
    if "tornado_time" not in _installed:
        _installed["tornado_time"] = tornado.ioloop.IOLoop.time
        _installed["score_time"] = score.time
    tornado.ioloop.IOLoop.time = lambda self: self.asyncio_loop.time() \
        if isinstance(getattr(self, "asyncio_loop", None), VLoop) else _installed["tornado_time"](self)
    score.time = lambda: loop.time()
    return loop


def uninstall(loop):
    import tornado.ioloop
    import streamz.core as score
    if "tornado_time" in _installed:
        tornado.ioloop.IOLoop.time = _installed["tornado_time"]
        score.time = _installed["score_time"]
    try:
        # cancel everything that is still pending so that nothing leaks into the next scenario
        for h in list(loop._scheduled):
            h.cancel()
        loop._ready.clear()
        loop.close()
    except Exception:
        pass
    asyncio.set_event_loop(None)
