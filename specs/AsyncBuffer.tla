---------------------------- MODULE AsyncBuffer ----------------------------
(***************************************************************************)
(* streamz.core.buffer(n) (core.py:1545-1572) and delay(interval)          *)
(* (core.py:1484-1511) between a set of producers and one consumer whose   *)
(* update() returns nothing / a Future / a native coroutine.               *)
(*                                                                         *)
(*   update(x, md):  retain(md); return queue.put((x, md))                 *)
(*   cb():  while True:                                                    *)
(*              x, md = yield queue.get()                                  *)
(*              yield self._emit(x, metadata=md)                           *)
(*              release(md)                                                *)
(*              [delay only: sleep(interval - (now - last)) if positive]   *)
(*                                                                         *)
(* tornado.queues.Queue: put() with a waiting getter hands the item over   *)
(* directly (the queue stays empty); put() on a full queue parks the item  *)
(* and returns a pending future; get() pops the head and admits the first  *)
(* parked putter atomically, resolving its future.                         *)
(*                                                                         *)
(* Elements are 1..NE; element e carries reference-counted tag e.          *)
(* Actions are at the grain of what can be observed on the real node       *)
(* (one distinguishing event each), so that recorded executions are        *)
(* validated without guessing: Put/emit_call, CbEmit/deliver,              *)
(* ConsumerDone/cons_done, CbRelease/release@cb, EmitDone/emit_done,       *)
(* Advance/time; CbWake (delay's timer) is the only silent step.           *)
(***************************************************************************)
EXTENDS Integers, Sequences, FiniteSets, TLC

CONSTANTS NE,        \* number of elements pushed in
          N,         \* buffer(n): queue bound; 0 = unbounded (delay)
          SyncCons,  \* TRUE: the consumer's update() returns nothing (completes inside the call)
          Interval,  \* delay(interval); 0 for buffer
          MaxOut,    \* how many emits may be outstanding (un-awaited) at once
          MaxTime,
          Faults     \* TRUE: the consumer's awaitable may raise

VARIABLES arrived,   \* elements 1..arrived have been offered (update called)
          q,         \* queue content
          putters,   \* parked items (queue full)
          putDone,   \* putDone[e]: the future returned by update(e) has resolved
          emitDone,  \* the producer has seen its emit awaitable complete
          cbpc,      \* "start" | "waiting" | "has" | "awaiting" | "sleeping" | "dead"
          hand,      \* the element cb currently holds (0: none)
          consBusy,  \* the consumer's awaitable for `hand` is unfinished
          delivered, \* history: elements handed to the consumer, in order
          rc,        \* reference count of each element's tag
          fired,     \* sequence of elements whose completion callback was scheduled
          now, last, wake

vars == <<arrived, q, putters, putDone, emitDone, cbpc, hand, consBusy, delivered, rc, fired, now, last, wake>>

Elems == 1 .. NE

Init ==
    /\ arrived = 0 /\ q = <<>> /\ putters = <<>>
    /\ putDone = [e \in Elems |-> FALSE] /\ emitDone = [e \in Elems |-> FALSE]
    /\ cbpc = "start" /\ hand = 0 /\ consBusy = FALSE /\ delivered = <<>>
    /\ rc = [e \in Elems |-> 0] /\ fired = <<>>
    /\ now = 0 /\ last = 0 /\ wake = 0

Outstanding == Cardinality({e \in 1 .. arrived : ~emitDone[e]})

\* producer: source.emit(e) -> _emit retains 1, buffer.update retains 1 and put()s, _emit releases 1
Put(e) ==
    /\ e = arrived + 1 /\ e <= NE
    /\ Outstanding < MaxOut
    /\ arrived' = e
    /\ rc' = [rc EXCEPT ![e] = @ + 1]
    /\ IF cbpc = "waiting"
       THEN /\ hand' = e /\ cbpc' = "has" /\ putDone' = [putDone EXCEPT ![e] = TRUE]
            /\ UNCHANGED <<q, putters>>
       ELSE IF N = 0 \/ Len(q) < N
       THEN /\ q' = Append(q, e) /\ putDone' = [putDone EXCEPT ![e] = TRUE]
            /\ UNCHANGED <<hand, cbpc, putters>>
       ELSE /\ putters' = Append(putters, e)
            /\ UNCHANGED <<hand, cbpc, q, putDone>>
    /\ UNCHANGED <<emitDone, consBusy, delivered, fired, now, last, wake>>

\* the producer's awaitable completes (observed by the producer)
EmitDone(e) ==
    /\ e <= arrived /\ putDone[e] /\ ~emitDone[e]
    /\ emitDone' = [emitDone EXCEPT ![e] = TRUE]
    /\ UNCHANGED <<arrived, q, putters, putDone, cbpc, hand, consBusy, delivered, rc, fired, now, last, wake>>

\* cb: _emit(hand) -> consumer.update called
CbEmit ==
    /\ cbpc = "has"
    /\ delivered' = Append(delivered, hand)
    /\ cbpc' = "awaiting"
    /\ consBusy' = ~SyncCons
    /\ UNCHANGED <<arrived, q, putters, putDone, emitDone, hand, rc, fired, now, last, wake>>

ConsumerDone ==
    /\ consBusy
    /\ consBusy' = FALSE
    /\ UNCHANGED <<arrived, q, putters, putDone, emitDone, cbpc, hand, delivered, rc, fired, now, last, wake>>

\* the consumer's awaitable raises: the exception comes out of `yield self._emit` and ends the forwarding coroutine.
\* Its element stays retained for ever (never reported as done); nothing drains the queue any more, so emits that are
\* parked -- and every later emit on a full queue -- never complete.
ConsumerFail ==
    /\ Faults /\ consBusy
    /\ consBusy' = FALSE /\ cbpc' = "dead"
    /\ UNCHANGED <<arrived, q, putters, putDone, emitDone, hand, delivered, rc, fired, now, last, wake>>

\* queue.get() when something is queued: pop the head, admit the first parked putter
Take ==
    /\ hand' = Head(q)
    /\ IF putters # <<>>
       THEN /\ q' = Append(Tail(q), Head(putters))
            /\ putters' = Tail(putters)
            /\ putDone' = [putDone EXCEPT ![Head(putters)] = TRUE]
       ELSE /\ q' = Tail(q) /\ UNCHANGED <<putters, putDone>>
    /\ cbpc' = "has"

\* cb: downstream finished -> release, then (delay: pace) loop to queue.get()
CbRelease ==
    /\ cbpc = "awaiting" /\ ~consBusy
    /\ rc' = [rc EXCEPT ![hand] = @ - 1]
    /\ fired' = IF rc[hand] - 1 <= 0 THEN Append(fired, hand) ELSE fired
    /\ IF Interval > 0 /\ Interval - (now - last) > 0
       THEN /\ cbpc' = "sleeping" /\ wake' = now + (Interval - (now - last)) /\ hand' = 0
            /\ UNCHANGED <<q, putters, putDone, last>>
       ELSE /\ last' = now /\ wake' = wake
            /\ IF q # <<>> THEN Take
               ELSE /\ cbpc' = "waiting" /\ hand' = 0 /\ UNCHANGED <<q, putters, putDone>>
    /\ UNCHANGED <<arrived, emitDone, consBusy, delivered, now>>

\* the constructor only schedules cb (loop.add_callback): it reaches queue.get() one iteration later,
\* so elements offered before that are queued, not handed over (silent)
CbStart ==
    /\ cbpc = "start"
    /\ IF q # <<>> THEN Take
       ELSE /\ cbpc' = "waiting" /\ hand' = 0 /\ UNCHANGED <<q, putters, putDone>>
    /\ UNCHANGED <<arrived, emitDone, consBusy, delivered, rc, fired, now, last, wake>>

\* delay: the pacing sleep is over (silent)
CbWake ==
    /\ cbpc = "sleeping" /\ now >= wake
    /\ last' = now
    /\ IF q # <<>> THEN Take
       ELSE /\ cbpc' = "waiting" /\ hand' = 0 /\ UNCHANGED <<q, putters, putDone>>
    /\ UNCHANGED <<arrived, emitDone, consBusy, delivered, rc, fired, now, wake>>

Advance ==
    /\ Interval > 0 /\ now < MaxTime
    /\ now' = now + 1
    /\ UNCHANGED <<arrived, q, putters, putDone, emitDone, cbpc, hand, consBusy, delivered, rc, fired, last, wake>>

Internal == CbStart \/ CbEmit \/ CbRelease \/ CbWake
Next == (\E e \in Elems : Put(e) \/ EmitDone(e)) \/ Internal \/ ConsumerDone \/ ConsumerFail \/ Advance

Spec == Init /\ [][Next]_vars
FairSpec == Spec /\ WF_vars(Internal) /\ WF_vars(ConsumerDone) /\ WF_vars(Advance)
                 /\ \A e \in Elems : WF_vars(EmitDone(e)) /\ WF_vars(Put(e))

----------------------------------------------------------------------------
Range(s) == {s[i] : i \in 1 .. Len(s)}
Stored == Range(q) \cup Range(putters) \cup (IF hand # 0 THEN {hand} ELSE {})
Quiescent == cbpc \in {"waiting", "sleeping"} /\ q = <<>> /\ putters = <<>> /\ ~consBusy

TypeOK == /\ arrived \in 0 .. NE /\ cbpc \in {"start", "waiting", "has", "awaiting", "sleeping", "dead"}
          /\ hand \in 0 .. NE /\ consBusy \in BOOLEAN

\* C02: lossless, exactly once, in arrival order
Lossless == /\ \A i \in 1 .. Len(delivered) : delivered[i] = i
            /\ Len(delivered) <= arrived
            /\ Quiescent => Len(delivered) = arrived
\* everything that has arrived is delivered, held by cb, or stored -- never in two places
Conservation == /\ Len(delivered) + Len(q) + Len(putters) + (IF cbpc = "has" THEN 1 ELSE 0) = arrived
                /\ \A i \in 1 .. Len(q) : q[i] > Len(delivered)

\* C03: accepted (its emit may complete) but not yet handed on: bounded by n
Bound == N > 0 => /\ Len(q) <= N
                  /\ Cardinality({e \in 1 .. arrived : putDone[e] /\ e \in Range(q)}) <= N
ParkedNotDone == \A i \in 1 .. Len(putters) : ~putDone[putters[i]]
\* C03: no lost wake-up: when nothing can move any more every emit has completed
NoStuckEmit == (Quiescent /\ ~ENABLED Internal) => \A e \in 1 .. arrived : putDone[e]
EmitsComplete == \A e \in Elems : (e <= arrived) ~> (emitDone[e] \/ cbpc = "dead")
AllDelivered == <>(Len(delivered) = NE \/ cbpc = "dead")

\* C04: the completion signal never precedes completion
InFlight(e) == e \in Stored \/ (consBusy /\ hand = e) \/ (cbpc \in {"awaiting", "dead"} /\ hand = e)
CbSafe == \A i \in 1 .. Len(fired) : ~InFlight(fired[i])
\* C04 / C16: an element whose consumer raised is never reported as done
FailedNeverSignalled == cbpc = "dead" => /\ hand # 0 /\ rc[hand] = 1
                                         /\ \A i \in 1 .. Len(fired) : fired[i] # hand
\* C05: balance at quiescence, never negative, fired exactly once
RcBalance == /\ \A e \in Elems : rc[e] >= 0
             /\ \A e \in Elems : rc[e] = (IF e \in Stored \/ (cbpc \in {"awaiting", "dead"} /\ hand = e) THEN 1 ELSE 0)
             /\ \A e \in Elems : Cardinality({i \in 1 .. Len(fired) : fired[i] = e}) <= 1
             /\ Quiescent => \A e \in 1 .. arrived : rc[e] = 0 /\ \E i \in 1 .. Len(fired) : fired[i] = e
NoResurrection == [][\A e \in Elems : (\E i \in 1 .. Len(fired) : fired[i] = e) => rc'[e] <= 0]_vars
=============================================================================
