------------------------- MODULE AsyncBufferTrace -------------------------
(* Trace validation of the real buffer / delay node against AsyncBuffer.   *)
(* The constants of each trace (n, consumer mode, interval) come from the  *)
(* trace file; CbWake is the only silent step.                             *)
EXTENDS AsyncBuffer, Json, IOUtils, TLCExt

Traces == JsonDeserialize(IOEnv.TRACE_FILE)
VARIABLES tid, l
tvars == <<vars, tid, l>>

T == Traces[tid].ev
Max(a, b) == IF a > b THEN a ELSE b

TraceInit == /\ tid \in 1 .. Len(Traces) /\ l = 1 /\ Init /\ TLCSet(tid, 1)

Same == UNCHANGED vars

Event(ev) ==
    CASE ev.ev = "Put" -> Put(ev.e)
      [] ev.ev = "EmitDone" -> EmitDone(ev.e)
      [] ev.ev = "CbEmit" -> CbEmit /\ hand = ev.e /\ ev.md = <<ev.e>>        \* C10: its own metadata travels with it
      [] ev.ev = "ConsumerDone" -> ConsumerDone
      [] ev.ev = "ConsumerFail" -> ConsumerFail
      [] ev.ev = "CbRelease" -> CbRelease /\ hand = ev.e /\ rc'[ev.e] = ev.count
                                /\ (ev.fired <=> (Len(fired') > Len(fired)))
      [] ev.ev = "Advance" -> /\ now' = ev.now
                              /\ UNCHANGED <<arrived, q, putters, putDone, emitDone, cbpc, hand, consBusy,
                                             delivered, rc, fired, last, wake>>
      \* projections of the real node's state, logged after every driver operation
      [] ev.ev = "ObsQ" -> /\ q = ev.q /\ Len(putters) = ev.putters
                           /\ ((cbpc = "waiting") <=> (ev.getters = 1)) /\ Same
      [] ev.ev = "ObsRc" -> (\A e \in 1 .. Len(ev.rc) : rc[e] = ev.rc[e]) /\ Same
      [] ev.ev = "End" -> ((ev.quiescent /\ cbpc # "dead") => Quiescent) /\ Same
      [] OTHER -> FALSE

TraceNext ==
    \/ /\ l <= Len(T)
       /\ Event(T[l])
       /\ l' = l + 1 /\ TLCSet(tid, Max(TLCGet(tid), l + 1))
       /\ UNCHANGED tid
    \/ /\ l <= Len(T) /\ (CbWake \/ CbStart) /\ UNCHANGED <<tid, l>>

TraceSpec == TraceInit /\ [][TraceNext]_tvars

\* properties evaluated in every state of every trace
TraceInv == TypeOK /\ Lossless /\ Conservation /\ Bound /\ ParkedNotDone /\ CbSafe /\ FailedNeverSignalled /\ RcBalance

Report == \A i \in 1 .. Len(Traces) : PrintT(<<"REACHED", Traces[i].id, TLCGet(i), Len(Traces[i].ev) + 1>>)
=============================================================================
