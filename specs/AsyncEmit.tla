----------------------------- MODULE AsyncEmit -----------------------------
(***************************************************************************)
(* Stream.emit / Stream._emit (core.py:429-501) with K consumers that are  *)
(* reachable through synchronous hand-offs only (directly, or through      *)
(* map / slice / union ... which pass the downstream results on).          *)
(*                                                                         *)
(*   _emit(x, md): retain(md, K)                                           *)
(*                 for each downstream in attachment order:                *)
(*                     r = downstream.update(x, md); collect r             *)
(*                     release(md)                                         *)
(*   emit(x):      return convert_yielded(results)   (a multi-future:      *)
(*                 completes when every collected awaitable has)           *)
(*                                                                         *)
(* AsyncSet: the consumers whose update() returns an awaitable (Future or  *)
(* native coroutine) finished later; the others return nothing.            *)
(* HoldRefs = FALSE is the tree: _emit releases when update() *returns*,   *)
(* so the count reaches zero while asynchronous consumers are still busy   *)
(* (CbSafe fails: known finding F06).  HoldRefs = TRUE is the design in    *)
(* which the reference of an asynchronous consumer is released when its    *)
(* awaitable finishes.                                                     *)
(***************************************************************************)
EXTENDS Integers, Sequences, FiniteSets, TLC

CONSTANTS NE, K, AsyncSet, MaxOut, HoldRefs,
          Faults,       \* TRUE: a consumer's awaitable may raise
          FirstSync     \* consumers (a sink around a batching writer, say) whose first call returns nothing and whose later
                        \* calls return an awaitable: whether a delivery must be waited for is decided per call

VARIABLES called, busy, emitDone, delivered, rc, fired,
          failedC   \* <<e, c>>: the awaitable of consumer c for element e raised
vars == <<called, busy, emitDone, delivered, rc, fired, failedC>>
failedE == {p[1] : p \in failedC}
Elems == 1 .. NE
Cons == 1 .. K
Async == AsyncSet \cap Cons
AsyncFor(e) == Async \ (IF e = 1 THEN FirstSync ELSE {})

Init == /\ called = 0 /\ busy = {} /\ emitDone = [e \in Elems |-> FALSE] /\ delivered = <<>>
        /\ rc = [e \in Elems |-> 0] /\ fired = <<>> /\ failedC = {}

Outstanding == Cardinality({e \in 1 .. called : ~emitDone[e]})

EmitCall(e) ==
    /\ e = called + 1 /\ e <= NE /\ Outstanding < MaxOut
    /\ called' = e
    /\ delivered' = delivered \o [c \in 1 .. K |-> <<e, c>>]
    /\ busy' = busy \cup {<<e, c>> : c \in AsyncFor(e)}
    /\ IF HoldRefs /\ AsyncFor(e) # {}
       THEN rc' = [rc EXCEPT ![e] = Cardinality(AsyncFor(e))] /\ UNCHANGED fired
       ELSE rc' = rc /\ fired' = Append(fired, e)
    /\ UNCHANGED <<emitDone, failedC>>

\* the awaitable of consumer c for element e raises: the emitter gets the exception (once every awaitable of that emit has
\* finished); with HoldRefs the reference is not released (the element is never reported as done)
ConsumerFail(e, c) ==
    /\ Faults /\ <<e, c>> \in busy
    /\ busy' = busy \ {<<e, c>>} /\ failedC' = failedC \cup {<<e, c>>}
    /\ UNCHANGED <<called, emitDone, delivered, rc, fired>>

EmitRaised(e) ==
    /\ e <= called /\ ~emitDone[e] /\ e \in failedE
    /\ \A c \in Cons : <<e, c>> \notin busy
    /\ emitDone' = [emitDone EXCEPT ![e] = TRUE]
    /\ UNCHANGED <<called, busy, delivered, rc, fired, failedC>>

ConsumerDone(e, c) ==
    /\ <<e, c>> \in busy
    /\ busy' = busy \ {<<e, c>>}
    /\ IF HoldRefs THEN /\ rc' = [rc EXCEPT ![e] = @ - 1]
                        /\ fired' = IF rc[e] - 1 <= 0 THEN Append(fired, e) ELSE fired
       ELSE UNCHANGED <<rc, fired>>
    /\ UNCHANGED <<called, emitDone, delivered, failedC>>

EmitDone(e) ==
    /\ e <= called /\ ~emitDone[e] /\ e \notin failedE
    /\ \A c \in Cons : <<e, c>> \notin busy
    /\ emitDone' = [emitDone EXCEPT ![e] = TRUE]
    /\ UNCHANGED <<called, busy, delivered, rc, fired, failedC>>

Next == \E e \in Elems : EmitCall(e) \/ EmitDone(e) \/ EmitRaised(e) \/ \E c \in Cons : ConsumerDone(e, c) \/ ConsumerFail(e, c)
Spec == Init /\ [][Next]_vars
FairSpec == Spec /\ \A e \in Elems : WF_vars(EmitDone(e)) /\ WF_vars(EmitRaised(e)) /\ \A c \in Cons : WF_vars(ConsumerDone(e, c) \/ ConsumerFail(e, c))

----------------------------------------------------------------------------
\* C03: the emit awaitable does not complete before every directly reachable consumer has finished
EmitWaits == \A e \in Elems : emitDone[e] => \A c \in Cons : <<e, c>> \notin busy
\* C03: no lost wake-up
EmitsComplete == \A e \in Elems : (e <= called) ~> emitDone[e]
\* C01/C02: every consumer sees every element once, siblings in attachment order, elements in emission order
FanOutOrder == delivered = [i \in 1 .. (called * K) |-> <<((i - 1) \div K) + 1, ((i - 1) % K) + 1>>]
\* C04
CbSafe == \A i \in 1 .. Len(fired) : \A c \in Cons : <<fired[i], c>> \notin busy
RcBalance == /\ \A e \in Elems : rc[e] >= 0
             /\ \A e \in Elems : rc[e] = (IF HoldRefs THEN Cardinality({c \in Cons : <<e, c>> \in busy \/ <<e, c>> \in failedC}) ELSE 0)
             /\ \A e \in Elems : Cardinality({i \in 1 .. Len(fired) : fired[i] = e}) <= 1
             /\ \A e \in 1 .. called : ((\A c \in Cons : <<e, c>> \notin busy) /\ (~HoldRefs \/ e \notin failedE)) => \E i \in 1 .. Len(fired) : fired[i] = e
=============================================================================
