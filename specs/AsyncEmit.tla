----------------------------- MODULE AsyncEmit -----------------------------
(***************************************************************************)
(* Stream.emit / Stream._emit (core.py:429-501) with K consumers that are  *)
(* reachable through synchronous hand-offs only (directly, or through      *)
(* map / slice / union ... which pass the downstream results on).          *)
(*                                                                         *)
(*   _emit(x, md): retain(md, K)                                           *)
(*                 for each downstream in attachment order:                *)
(*                     r = downstream.update(x, md); collect r             *)
(*                     release(md)                                         *)
(*   emit(x):      return convert_yielded(results)   (a multi-future:      *)
(*                 completes when every collected awaitable has)           *)
(*                                                                         *)
(* AsyncSet: the consumers whose update() returns an awaitable (Future or  *)
(* native coroutine) finished later; the others return nothing.            *)
(* HoldRefs = FALSE is the tree: _emit releases when update() *returns*,   *)
(* so the count reaches zero while asynchronous consumers are still busy   *)
(* (CbSafe fails: known finding F06).  HoldRefs = TRUE is the design in    *)
(* which the reference of an asynchronous consumer is released when its    *)
(* awaitable finishes.                                                     *)
(***************************************************************************)
EXTENDS Integers, Sequences, FiniteSets, TLC

CONSTANTS NE, K, AsyncSet, MaxOut, HoldRefs

VARIABLES called, busy, emitDone, delivered, rc, fired
vars == <<called, busy, emitDone, delivered, rc, fired>>
Elems == 1 .. NE
Cons == 1 .. K
Async == AsyncSet \cap Cons

Init == /\ called = 0 /\ busy = {} /\ emitDone = [e \in Elems |-> FALSE] /\ delivered = <<>>
        /\ rc = [e \in Elems |-> 0] /\ fired = <<>>

Outstanding == Cardinality({e \in 1 .. called : ~emitDone[e]})

EmitCall(e) ==
    /\ e = called + 1 /\ e <= NE /\ Outstanding < MaxOut
    /\ called' = e
    /\ delivered' = delivered \o [c \in 1 .. K |-> <<e, c>>]
    /\ busy' = busy \cup {<<e, c>> : c \in Async}
    /\ IF HoldRefs /\ Async # {}
       THEN rc' = [rc EXCEPT ![e] = Cardinality(Async)] /\ UNCHANGED fired
       ELSE rc' = rc /\ fired' = Append(fired, e)
    /\ UNCHANGED emitDone

ConsumerDone(e, c) ==
    /\ <<e, c>> \in busy
    /\ busy' = busy \ {<<e, c>>}
    /\ IF HoldRefs THEN /\ rc' = [rc EXCEPT ![e] = @ - 1]
                        /\ fired' = IF rc[e] - 1 <= 0 THEN Append(fired, e) ELSE fired
       ELSE UNCHANGED <<rc, fired>>
    /\ UNCHANGED <<called, emitDone, delivered>>

EmitDone(e) ==
    /\ e <= called /\ ~emitDone[e]
    /\ \A c \in Cons : <<e, c>> \notin busy
    /\ emitDone' = [emitDone EXCEPT ![e] = TRUE]
    /\ UNCHANGED <<called, busy, delivered, rc, fired>>

Next == \E e \in Elems : EmitCall(e) \/ EmitDone(e) \/ \E c \in Cons : ConsumerDone(e, c)
Spec == Init /\ [][Next]_vars
FairSpec == Spec /\ \A e \in Elems : WF_vars(EmitDone(e)) /\ \A c \in Cons : WF_vars(ConsumerDone(e, c))

----------------------------------------------------------------------------
\* C03: the emit awaitable does not complete before every directly reachable consumer has finished
EmitWaits == \A e \in Elems : emitDone[e] => \A c \in Cons : <<e, c>> \notin busy
\* C03: no lost wake-up
EmitsComplete == \A e \in Elems : (e <= called) ~> emitDone[e]
\* C01/C02: every consumer sees every element once, siblings in attachment order, elements in emission order
FanOutOrder == delivered = [i \in 1 .. (called * K) |-> <<((i - 1) \div K) + 1, ((i - 1) % K) + 1>>]
\* C04
CbSafe == \A i \in 1 .. Len(fired) : \A c \in Cons : <<fired[i], c>> \notin busy
RcBalance == /\ \A e \in Elems : rc[e] >= 0
             /\ \A e \in Elems : rc[e] = (IF HoldRefs THEN Cardinality({c \in Cons : <<e, c>> \in busy}) ELSE 0)
             /\ \A e \in Elems : Cardinality({i \in 1 .. Len(fired) : fired[i] = e}) <= 1
             /\ \A e \in 1 .. called : (\A c \in Cons : <<e, c>> \notin busy) => \E i \in 1 .. Len(fired) : fired[i] = e
=============================================================================
