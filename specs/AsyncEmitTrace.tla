-------------------------- MODULE AsyncEmitTrace --------------------------
(* Trace validation of real emit() fan-out through synchronous hand-offs against AsyncEmit. *)
EXTENDS AsyncEmit, Json, IOUtils, TLCExt

Traces == JsonDeserialize(IOEnv.TRACE_FILE)
VARIABLES tid, l
tvars == <<vars, tid, l>>
T == Traces[tid].ev
Same == UNCHANGED vars
Max(a, b) == IF a > b THEN a ELSE b

TraceInit == /\ tid \in 1 .. Len(Traces) /\ l = 1 /\ Init /\ TLCSet(tid, 1)

Event(ev) ==
    CASE ev.ev = "EmitCall" -> /\ EmitCall(ev.e)
                               /\ ev.mdok                                       \* C10: metadata passed through unchanged
                               /\ ev.deliveries = [c \in 1 .. K |-> c]         \* consumers served in attachment order
                               /\ (ev.fired <=> (Len(fired') > Len(fired)))
                               \* the callback fires at most once, and only after the last consumer has been called
                               /\ ev.fires <= 1 /\ (ev.fired => ev.firedAfter = K)
      [] ev.ev = "ConsumerDone" -> ConsumerDone(ev.e, ev.c)
      [] ev.ev = "ConsumerFail" -> ConsumerFail(ev.e, ev.c)
      [] ev.ev = "EmitRaised" -> EmitRaised(ev.e)
      [] ev.ev = "EmitDone" -> EmitDone(ev.e)
      [] ev.ev = "ObsRc" -> (\A e \in 1 .. Len(ev.rc) : rc[e] = ev.rc[e]) /\ Same
      [] ev.ev = "End" -> Same
      [] OTHER -> FALSE

TraceNext ==
    /\ l <= Len(T) /\ Event(T[l])
    /\ l' = l + 1 /\ TLCSet(tid, Max(TLCGet(tid), l + 1)) /\ UNCHANGED tid
    /\ ((CbSafe /\ ~CbSafe') => PrintT(<<"UNSAFE", Traces[tid].id, l>>))

TraceSpec == TraceInit /\ [][TraceNext]_tvars
TraceInv == EmitWaits /\ FanOutOrder /\ RcBalance
Report == \A i \in 1 .. Len(Traces) : PrintT(<<"REACHED", Traces[i].id, TLCGet(i), Len(Traces[i].ev) + 1>>)
=============================================================================
