---------------------------- MODULE AsyncLatest ----------------------------
(***************************************************************************)
(* streamz.core.latest (core.py:1995-2041): a one-element slot that is     *)
(* overwritten by every arrival, and a forwarding coroutine cb that hands  *)
(* the slot's content to the consumer whenever the consumer is free.       *)
(*                                                                         *)
(*   update(x, md): release(slot md, if still owned by the slot);          *)
(*                  retain(md); slot = x; fresh = True;                    *)
(*                  loop.add_callback(condition.notify)                    *)
(*   cb(): while True:                                                     *)
(*             while not fresh: yield condition.wait()                     *)
(*             fresh = False; x, md = slot                                 *)
(*             yield self._emit(x, md)                                     *)
(* In the tree the slot keeps its reference until the next arrival         *)
(* overwrites it (streamz/tests/test_core.py::test_latest_ref_counts pins  *)
(* this), so the reference of an element can be released while that        *)
(* element is still being handled downstream: CbSafe fails for             *)
(* CbOwns = FALSE (known finding F06-latest); CbOwns = TRUE is the design  *)
(* in which cb owns the reference during the emission.                     *)
(*                                                                         *)
(* Every notify is a separately scheduled loop callback (RunNotify): a     *)
(* notify that finds no waiter is lost, which is why the `fresh` flag is   *)
(* needed.  Legacy = TRUE models the algorithm of the pinned tree before   *)
(* the fixes (no flag, slot metadata never handed to cb): TLC then finds   *)
(* the lost-wakeup and the duplicate-delivery counter-examples.            *)
(***************************************************************************)
EXTENDS Integers, Sequences, FiniteSets, TLC

CONSTANTS NE, SyncCons, Legacy,
          CbOwns   \* TRUE: cb takes the reference out of the slot and releases it after the emission (ideal
                   \* design); FALSE: the slot keeps the reference until it is overwritten (the tree)

VARIABLES arrived, slot, slotOwns, fresh, notifies, cbpc, hand, consBusy, delivered, rc, fired
vars == <<arrived, slot, slotOwns, fresh, notifies, cbpc, hand, consBusy, delivered, rc, fired>>
Elems == 1 .. NE

Init ==
    /\ arrived = 0 /\ slot = 0 /\ slotOwns = FALSE /\ fresh = FALSE /\ notifies = 0
    /\ cbpc = "start" /\ hand = 0 /\ consBusy = FALSE /\ delivered = <<>>
    /\ rc = [e \in Elems |-> 0] /\ fired = <<>>

\* latest.update
Arrive(e) ==
    /\ e = arrived + 1 /\ e <= NE
    /\ arrived' = e
    /\ LET drop == IF slotOwns THEN slot ELSE 0
           rc1 == IF drop # 0 THEN [rc EXCEPT ![drop] = @ - 1] ELSE rc
       IN /\ rc' = [rc1 EXCEPT ![e] = @ + 1]
          /\ fired' = IF drop # 0 /\ rc1[drop] <= 0 THEN Append(fired, drop) ELSE fired
    /\ slot' = e /\ slotOwns' = TRUE /\ fresh' = TRUE
    /\ notifies' = notifies + 1
    /\ UNCHANGED <<cbpc, hand, consBusy, delivered>>

\* one queued condition.notify() runs: wakes the waiter if there is one, otherwise is lost
RunNotify ==
    /\ notifies > 0
    /\ notifies' = notifies - 1
    /\ cbpc' = IF cbpc = "waiting" THEN "woken" ELSE cbpc
    /\ UNCHANGED <<arrived, slot, slotOwns, fresh, hand, consBusy, delivered, rc, fired>>

AtLoopTop == cbpc \in {"start", "woken", "released"}

\* cb takes the slot content and calls _emit
CbEmit ==
    /\ IF Legacy THEN cbpc = "woken" ELSE (AtLoopTop /\ fresh)
    /\ hand' = slot
    /\ fresh' = FALSE
    /\ slotOwns' = IF CbOwns THEN FALSE ELSE slotOwns
    /\ delivered' = Append(delivered, slot)
    /\ cbpc' = "emitting"
    /\ consBusy' = ~SyncCons
    /\ UNCHANGED <<arrived, slot, notifies, rc, fired>>

\* nothing new: (re-)wait on the condition (silent)
CbWait ==
    /\ IF Legacy THEN cbpc \in {"start", "released"} ELSE (AtLoopTop /\ ~fresh)
    /\ cbpc' = "waiting"
    /\ UNCHANGED <<arrived, slot, slotOwns, fresh, notifies, hand, consBusy, delivered, rc, fired>>

ConsumerDone ==
    /\ consBusy /\ consBusy' = FALSE
    /\ UNCHANGED <<arrived, slot, slotOwns, fresh, notifies, cbpc, hand, delivered, rc, fired>>

\* downstream finished: cb releases the element it emitted
CbRelease ==
    /\ cbpc = "emitting" /\ ~consBusy
    /\ cbpc' = "released"
    /\ IF ~CbOwns THEN UNCHANGED <<rc, fired>>
       ELSE /\ rc' = [rc EXCEPT ![hand] = @ - 1]
            /\ fired' = IF rc[hand] - 1 <= 0 THEN Append(fired, hand) ELSE fired
    /\ hand' = 0
    /\ UNCHANGED <<arrived, slot, slotOwns, fresh, notifies, consBusy, delivered>>

Internal == RunNotify \/ CbEmit \/ CbWait \/ CbRelease
Next == (\E e \in Elems : Arrive(e)) \/ Internal \/ ConsumerDone
Spec == Init /\ [][Next]_vars
FairSpec == Spec /\ WF_vars(Internal) /\ WF_vars(ConsumerDone)

----------------------------------------------------------------------------
Quiescent == notifies = 0 /\ cbpc = "waiting" /\ ~consBusy
TypeOK == cbpc \in {"start", "waiting", "woken", "emitting", "released"} /\ notifies \in 0 .. NE

\* C14: an in-order subsequence without repetition ...
Subsequence == /\ \A i \in 1 .. Len(delivered) : delivered[i] \in 1 .. arrived
               /\ \A i, j \in 1 .. Len(delivered) : i < j => delivered[i] < delivered[j]
\* ... ending with the newest element once input has stopped and the consumer is free
NewestDelivered == (Quiescent /\ arrived > 0) => delivered # <<>> /\ delivered[Len(delivered)] = arrived
NewestEventually == [](arrived = NE => <>(delivered # <<>> /\ delivered[Len(delivered)] = NE))

\* C04 / C05
InFlight(e) == (slot = e /\ fresh) \/ (hand = e /\ cbpc = "emitting")
CbSafe == \A i \in 1 .. Len(fired) : ~InFlight(fired[i])
RcBalance == /\ \A e \in Elems : rc[e] >= 0
             /\ \A e \in Elems : rc[e] = (IF (slot = e /\ slotOwns) \/ (CbOwns /\ hand = e /\ cbpc = "emitting") THEN 1 ELSE 0)
             /\ \A e \in Elems : Cardinality({i \in 1 .. Len(fired) : fired[i] = e}) <= 1
             \* at quiescence only the slot (the most recent value kept by the node) may hold a reference
             /\ Quiescent => \A e \in 1 .. arrived : rc[e] = (IF slot = e /\ slotOwns THEN 1 ELSE 0)
NoResurrection == [][\A e \in Elems : (\E i \in 1 .. Len(fired) : fired[i] = e) => rc'[e] <= 0]_vars
=============================================================================
