------------------------- MODULE AsyncLatestTrace -------------------------
(* Trace validation of the real latest node against AsyncLatest.           *)
(* RunNotify and CbWait are silent (not observable without source hooks);   *)
(* so is CbRelease when cb does not own a reference (nothing is released).  *)
EXTENDS AsyncLatest, Json, IOUtils, TLCExt

Traces == JsonDeserialize(IOEnv.TRACE_FILE)
VARIABLES tid, l
tvars == <<vars, tid, l>>
T == Traces[tid].ev
Max(a, b) == IF a > b THEN a ELSE b
Same == UNCHANGED vars

TraceInit == /\ tid \in 1 .. Len(Traces) /\ l = 1 /\ Init /\ TLCSet(tid, 1)

Event(ev) ==
    CASE ev.ev = "Arrive" -> /\ Arrive(ev.e)
                             /\ ev.drop = (IF slotOwns THEN slot ELSE 0)
                             /\ (ev.dropFired <=> (Len(fired') > Len(fired)))
      [] ev.ev = "CbEmit" -> CbEmit /\ slot = ev.e /\ ev.md = <<ev.e>>
      [] ev.ev = "ConsumerDone" -> ConsumerDone
      [] ev.ev = "CbRelease" -> CbRelease /\ hand = ev.e /\ rc'[ev.e] = ev.count
                                /\ (ev.fired <=> (Len(fired') > Len(fired)))
      [] ev.ev = "ObsSlot" -> slot = ev.slot /\ Same
      [] ev.ev = "ObsRc" -> (\A e \in 1 .. Len(ev.rc) : rc[e] = ev.rc[e]) /\ Same
      [] ev.ev = "End" -> (ev.quiescent => Quiescent) /\ Same
      [] OTHER -> FALSE

TraceNext ==
    \/ /\ l <= Len(T) /\ Event(T[l])
       /\ l' = l + 1 /\ TLCSet(tid, Max(TLCGet(tid), l + 1)) /\ UNCHANGED tid
       \* CbSafe (C04) is reported per event instead of stopping the run
       /\ ((CbSafe /\ ~CbSafe') => PrintT(<<"UNSAFE", Traces[tid].id, l>>))
    \/ /\ l <= Len(T) /\ (RunNotify \/ CbWait \/ (~CbOwns /\ CbRelease)) /\ UNCHANGED <<tid, l>>

TraceSpec == TraceInit /\ [][TraceNext]_tvars
TraceInv == TypeOK /\ Subsequence /\ NewestDelivered /\ RcBalance
Report == \A i \in 1 .. Len(Traces) : PrintT(<<"REACHED", Traces[i].id, TLCGet(i), Len(Traces[i].ev) + 1>>)
=============================================================================
