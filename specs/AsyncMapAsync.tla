---------------------------- MODULE AsyncMapAsync ----------------------------
(***************************************************************************)
(* streamz.core.map_async(func, parallelism) (core.py:722-835).            *)
(*                                                                         *)
(*   update(x, md):  retain(md); return create_task(_insert_job(x, md))    *)
(*   _insert_job:    async with insert_lock:          (FIFO: arrival order)*)
(*                       wait until queued + active < parallelism          *)
(*                       task = create_task(func(x)); queue.put((task, md))*)
(*   work_callback:  while True:                                           *)
(*                       task, md = await queue.get(); active = 1          *)
(*                       result = await task;          active = 0          *)
(*                       await gather(.._emit(result, md)); release(md)    *)
(*                                                                         *)
(*                       on an exception of the task: log, drop the        *)
(*                       element, never release it (ReleaseFailed = TRUE   *)
(*                       models the pinned tree, which released it and so  *)
(*                       reported a lost element as done: finding F23)     *)
(*                                                                         *)
(* The functions finish in any order (FuncFinish); results are forwarded   *)
(* in arrival order because the *tasks* are queued in arrival order.       *)
(* Legacy = TRUE models the pinned tree before the fixes: no insert lock   *)
(* (any waiting job may grab a free slot), the slot is freed by get()      *)
(* although the task still runs (parallelism + 1 functions at once), and   *)
(* the reference is retained only after the job has been queued.           *)
(***************************************************************************)
EXTENDS Integers, Sequences, FiniteSets, TLC

CONSTANTS NE, P, SyncCons, MaxOut, Legacy,
          EarlySlot   \* TRUE (the tree): queue.get() frees the slot although the task still runs, so parallelism + 1
                      \* functions can be evaluated at once (known finding F08, pinned by test_map_async_tornado);
                      \* FALSE: the awaited task counts against the limit
CONSTANTS Faults,         \* TRUE: a function evaluation may raise
          ReleaseFailed   \* TRUE: the pinned tree before the fix of F23

VARIABLES arrived, ins, q, running, finished, wpc, cur, active, delivered, consBusy, emitDone, inserted, rc, fired,
          failedF,   \* elements whose function raised
          dropped    \* ... and which the worker has logged and dropped
vars == <<arrived, ins, q, running, finished, wpc, cur, active, delivered, consBusy, emitDone, inserted, rc, fired, failedF, dropped>>
Elems == 1 .. NE

Init == /\ arrived = 0 /\ ins = <<>> /\ q = <<>> /\ running = {} /\ finished = {} /\ wpc = "idle" /\ cur = 0 /\ active = 0
        /\ delivered = <<>> /\ consBusy = FALSE /\ emitDone = [e \in Elems |-> FALSE] /\ inserted = [e \in Elems |-> FALSE]
        /\ rc = [e \in Elems |-> 0] /\ fired = <<>> /\ failedF = {} /\ dropped = {}

Outstanding == Cardinality({e \in 1 .. arrived : ~emitDone[e]})
Range(s) == {s[i] : i \in 1 .. Len(s)}
Without(s, e) == SelectSeq(s, LAMBDA z : z # e)

Arrive(e) ==
    /\ e = arrived + 1 /\ e <= NE /\ Outstanding < MaxOut
    /\ arrived' = e /\ ins' = Append(ins, e)
    /\ IF Legacy THEN /\ rc' = rc /\ fired' = Append(fired, e)        \* nothing retained yet: the upstream's release brings it to zero
       ELSE /\ rc' = [rc EXCEPT ![e] = @ + 1] /\ fired' = fired
    /\ UNCHANGED <<q, running, finished, wpc, cur, active, delivered, consBusy, emitDone, inserted, failedF, dropped>>

\* a waiting job finds a free slot, starts the function and queues its task
Insert(e) ==
    /\ e \in Range(ins)
    /\ Legacy \/ e = Head(ins)                                   \* the lock admits jobs in arrival order
    /\ IF Legacy \/ EarlySlot THEN Len(q) < P ELSE Len(q) + active < P
    /\ ins' = Without(ins, e) /\ q' = Append(q, e) /\ running' = running \cup {e}
    /\ inserted' = [inserted EXCEPT ![e] = TRUE]
    /\ rc' = IF Legacy THEN [rc EXCEPT ![e] = @ + 1] ELSE rc
    /\ UNCHANGED <<arrived, finished, wpc, cur, active, delivered, consBusy, emitDone, fired, failedF, dropped>>

\* the function raises when it is *called* (a plain callable that rejects its argument before it hands back an awaitable):
\* the job leaves the lock without a task, nothing is queued, the caller's emit raises, and the element stays retained --
\* it is never reported as done.  (The elements behind it are not affected: their results keep their own metadata.)
InsertFail(e) ==
    /\ Faults /\ ~Legacy /\ ~ReleaseFailed
    /\ ins # <<>> /\ e = Head(ins)
    /\ IF EarlySlot THEN Len(q) < P ELSE Len(q) + active < P
    /\ ins' = Tail(ins) /\ failedF' = failedF \cup {e} /\ dropped' = dropped \cup {e}
    /\ UNCHANGED <<arrived, q, running, finished, wpc, cur, active, delivered, consBusy, emitDone, inserted, rc, fired>>
Rejected(e) == e \in dropped /\ ~inserted[e]
EmitRaised(e) == /\ Rejected(e) /\ ~emitDone[e] /\ emitDone' = [emitDone EXCEPT ![e] = TRUE]
                 /\ UNCHANGED <<arrived, ins, q, running, finished, wpc, cur, active, delivered, consBusy, inserted, rc, fired, failedF, dropped>>

EmitDone(e) == /\ inserted[e] /\ ~emitDone[e] /\ emitDone' = [emitDone EXCEPT ![e] = TRUE]
               /\ UNCHANGED <<arrived, ins, q, running, finished, wpc, cur, active, delivered, consBusy, inserted, rc, fired, failedF, dropped>>

FuncFinish(e) == /\ e \in running /\ running' = running \ {e} /\ finished' = finished \cup {e}
                 /\ UNCHANGED <<arrived, ins, q, wpc, cur, active, delivered, consBusy, emitDone, inserted, rc, fired, failedF, dropped>>

\* the function of element e raises
FuncFail(e) == /\ Faults /\ e \in running /\ running' = running \ {e} /\ failedF' = failedF \cup {e}
               /\ UNCHANGED <<arrived, ins, q, finished, wpc, cur, active, delivered, consBusy, emitDone, inserted, rc, fired, dropped>>

\* the worker meets the exception: logs it and goes on with the next task; the element is not passed on and
\* (unless ReleaseFailed) stays retained for ever, so its completion callback never fires
WorkDrop == /\ wpc = "awaiting" /\ cur \in failedF
            /\ active' = 0 /\ wpc' = "idle" /\ cur' = 0 /\ dropped' = dropped \cup {cur}
            /\ IF ReleaseFailed
               THEN /\ rc' = [rc EXCEPT ![cur] = @ - 1]
                    /\ fired' = IF rc[cur] - 1 <= 0 THEN Append(fired, cur) ELSE fired
               ELSE UNCHANGED <<rc, fired>>
            /\ UNCHANGED <<arrived, ins, q, running, finished, delivered, consBusy, emitDone, inserted, failedF>>

WorkGet == /\ wpc = "idle" /\ q # <<>>
           /\ cur' = Head(q) /\ q' = Tail(q) /\ active' = 1 /\ wpc' = "awaiting"
           /\ UNCHANGED <<arrived, ins, running, finished, delivered, consBusy, emitDone, inserted, rc, fired, failedF, dropped>>

WorkEmit == /\ wpc = "awaiting" /\ cur \in finished
            /\ active' = 0 /\ delivered' = Append(delivered, cur) /\ consBusy' = ~SyncCons /\ wpc' = "emitting"
            /\ UNCHANGED <<arrived, ins, q, running, finished, cur, emitDone, inserted, rc, fired, failedF, dropped>>

ConsumerDone == /\ consBusy /\ consBusy' = FALSE
                /\ UNCHANGED <<arrived, ins, q, running, finished, wpc, cur, active, delivered, emitDone, inserted, rc, fired, failedF, dropped>>

WorkRelease == /\ wpc = "emitting" /\ ~consBusy
               /\ rc' = [rc EXCEPT ![cur] = @ - 1]
               /\ fired' = IF rc[cur] - 1 <= 0 THEN Append(fired, cur) ELSE fired
               /\ wpc' = "idle" /\ cur' = 0
               /\ UNCHANGED <<arrived, ins, q, running, finished, active, delivered, consBusy, emitDone, inserted, failedF, dropped>>

Internal == (\E e \in Elems : Insert(e)) \/ WorkGet \/ WorkEmit \/ WorkDrop \/ WorkRelease
Next == (\E e \in Elems : Arrive(e) \/ EmitDone(e) \/ EmitRaised(e) \/ FuncFinish(e) \/ FuncFail(e) \/ InsertFail(e)) \/ Internal \/ ConsumerDone
Spec == Init /\ [][Next]_vars
FairSpec == Spec /\ WF_vars(Internal) /\ WF_vars(ConsumerDone) /\ \A e \in Elems : WF_vars(FuncFinish(e) \/ FuncFail(e)) /\ WF_vars(EmitDone(e)) /\ WF_vars(EmitRaised(e)) /\ WF_vars(Arrive(e))

----------------------------------------------------------------------------
Quiescent == ins = <<>> /\ q = <<>> /\ wpc = "idle" /\ running = {}
\* C02: results in arrival order, each exactly once, whatever order the functions finish in
\* (an element whose function raised is dropped: the others keep their order)
InOrder == /\ \A i, j \in 1 .. Len(delivered) : i < j => delivered[i] < delivered[j]
           /\ \A i \in 1 .. Len(delivered) : \A e \in 1 .. (delivered[i] - 1) : e \in Range(delivered) \/ e \in failedF
           /\ \A i \in 1 .. Len(delivered) : delivered[i] \notin failedF
Lossless == Quiescent => Len(delivered) + Cardinality(dropped) = arrived
\* C03: at most `parallelism` functions are being evaluated at any time
Parallelism == Cardinality(running) <= P
\* C03: accepted (emit completed) but not yet handed on is bounded by the parallelism
Bound == Cardinality({e \in 1 .. arrived : inserted[e] /\ (e \in Range(q) \/ (cur = e /\ wpc = "awaiting"))}) <= P
EmitsComplete == \A e \in Elems : (e <= arrived) ~> emitDone[e]
AllDelivered == <>(Len(delivered) + Cardinality(dropped) = NE)
\* C16: the emitter is told of a failure exactly when the function rejected its element at the call
RaisedOnlyRejected == \A e \in Elems : Rejected(e) => e \in failedF
\* C04 / C05
InFlight(e) == e \in Range(ins) \/ e \in Range(q) \/ (cur = e /\ wpc \in {"awaiting", "emitting"})
CbSafe == \A i \in 1 .. Len(fired) : ~InFlight(fired[i])
\* C04: never for an element whose processing raised
FailedNeverSignalled == \A i \in 1 .. Len(fired) : fired[i] \notin failedF
RcBalance == /\ \A e \in Elems : rc[e] >= 0
             /\ \A e \in Elems : rc[e] = (IF InFlight(e) \/ (e \in dropped /\ ~ReleaseFailed) THEN 1 ELSE 0)
             /\ \A e \in Elems : Cardinality({i \in 1 .. Len(fired) : fired[i] = e}) <= 1
=============================================================================
