------------------------- MODULE AsyncMapAsyncTrace -------------------------
(* Trace validation of the real map_async node against AsyncMapAsync.  Insert, WorkGet and WorkDrop are silent; the   *)
(* logged queue length pins them down.                                                                     *)
EXTENDS AsyncMapAsync, Json, IOUtils, TLCExt
Traces == JsonDeserialize(IOEnv.TRACE_FILE)
VARIABLES tid, l
tvars == <<vars, tid, l>>
T == Traces[tid].ev
Same == UNCHANGED vars
Max(a, b) == IF a > b THEN a ELSE b
TraceInit == /\ tid \in 1 .. Len(Traces) /\ l = 1 /\ Init /\ TLCSet(tid, 1)
Event(ev) ==
    CASE ev.ev = "Arrive" -> Arrive(ev.e) /\ (ev.fired <=> Len(fired') > Len(fired))
      [] ev.ev = "FuncStart" -> ev.e \in running /\ Same
      [] ev.ev = "FuncFinish" -> FuncFinish(ev.e)
      [] ev.ev = "FuncFail" -> FuncFail(ev.e)
      [] ev.ev = "ReleaseFailed" -> WorkDrop /\ cur = ev.e /\ ReleaseFailed      \* a release by the worker without a delivery
      [] ev.ev = "CbEmit" -> WorkEmit /\ cur = ev.e /\ ev.md = <<ev.e>>
      [] ev.ev = "ConsumerDone" -> ConsumerDone
      [] ev.ev = "Release" -> WorkRelease /\ cur = ev.e /\ rc'[ev.e] = ev.count /\ (ev.fired <=> Len(fired') > Len(fired))
      [] ev.ev = "EmitDone" -> EmitDone(ev.e)
      [] ev.ev = "FuncReject" -> InsertFail(ev.e)
      [] ev.ev = "EmitRaised" -> EmitRaised(ev.e)
      [] ev.ev = "ObsQ" -> Len(q) = ev.qsize /\ Same
      [] ev.ev = "ObsRc" -> (\A e \in 1 .. Len(ev.rc) : rc[e] = ev.rc[e]) /\ Same
      [] ev.ev = "End" -> (ev.quiescent => Quiescent) /\ Same
      [] OTHER -> FALSE
\* the two invariants that are known to fail on the tree are reported per occurrence
Watch == /\ ((CbSafe /\ ~CbSafe') => PrintT(<<"UNSAFE", Traces[tid].id, l>>))
         /\ ((Parallelism /\ ~Parallelism') => PrintT(<<"OVERLIMIT", Traces[tid].id, l>>))
TraceNext ==
    \/ /\ l <= Len(T) /\ Event(T[l])
       /\ l' = l + 1 /\ TLCSet(tid, Max(TLCGet(tid), l + 1)) /\ UNCHANGED tid
       /\ Watch
    \/ /\ l <= Len(T) /\ ((\E e \in Elems : Insert(e)) \/ WorkGet \/ (~ReleaseFailed /\ WorkDrop)) /\ UNCHANGED <<tid, l>> /\ Watch
TraceSpec == TraceInit /\ [][TraceNext]_tvars
TraceInv == InOrder /\ Lossless /\ FailedNeverSignalled /\ RcBalance
Report == \A i \in 1 .. Len(Traces) : PrintT(<<"REACHED", Traces[i].id, TLCGet(i), Len(Traces[i].ev) + 1>>)
=============================================================================
