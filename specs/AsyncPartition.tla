--------------------------- MODULE AsyncPartition ---------------------------
(***************************************************************************)
(* streamz.core.partition(n, timeout, key) (core.py:1078-1165).            *)
(*                                                                         *)
(*   update(x, md)  [gen.coroutine]:                                       *)
(*       retain(md); buffer[key].append(x)                                 *)
(*       if len == n:  cancel the key's timer (timeout set, n > 1);        *)
(*                     yield self._flush(key); return                      *)
(*       if len == 1 and timeout: timer[key] = call_later(timeout, _flush) *)
(*   _flush(key)    [gen.coroutine]:                                       *)
(*       swap the key's buffer for an empty one                            *)
(*       yield self._emit(tuple(result), md);  release(md)                 *)
(*                                                                         *)
(* Several flushes can be in flight at once (a timer flush is awaited by   *)
(* nobody).  A size-triggered flush runs synchronously inside update(),    *)
(* i.e. inside the upstream's _emit, which holds its own reference around  *)
(* the call (`up`).  Integer clock, advanced only while the loop is idle.  *)
(***************************************************************************)
EXTENDS Integers, Sequences, FiniteSets, TLC

CONSTANTS NE, N, Timeout,
          Timed,            \* FALSE: timeout=None (partitions leave only when full); TRUE: timeout=Timeout seconds -- 0 included
                            \* (a falsy but legal value: the partition leaves at the next loop iteration)
          Mod,              \* key(e) = e % Mod
          SyncCons, MaxTime,
          Faults            \* TRUE: the consumer's awaitable may raise

VARIABLES arrived, buf, timer, now, fl, batches, arrAt, rc, fired, up, emitDone, trig,
          raised   \* elements whose update() got the exception of their own size flush
\* buf[k]: buffered elements of key k;  timer[k]: deadline of the armed timer or -1
\* fl: in-flight flushes, records [es, busy, by] (by = the element whose update() awaits it, 0 for a timer)
\* batches: history <<es, time, cause>>;  trig[e]: update(e) triggered a size flush that is not finished
vars == <<arrived, buf, timer, now, fl, batches, arrAt, rc, fired, up, emitDone, trig, raised>>
Elems == 1 .. NE
Keys == 0 .. (Mod - 1)
Key(e) == e % Mod

Init ==
    /\ arrived = 0 /\ buf = [k \in Keys |-> <<>>] /\ timer = [k \in Keys |-> -1] /\ now = 0 /\ fl = <<>>
    /\ batches = <<>> /\ arrAt = [e \in Elems |-> 0] /\ rc = [e \in Elems |-> 0] /\ fired = <<>> /\ up = 0
    /\ emitDone = [e \in Elems |-> FALSE] /\ trig = [e \in Elems |-> FALSE] /\ raised = {}

RECURSIVE ReleaseAll(_, _, _)
ReleaseAll(s, r, f) ==
    IF s = <<>> THEN <<r, f>>
    ELSE LET e == Head(s)
             r1 == [r EXCEPT ![e] = @ - 1]
         IN ReleaseAll(Tail(s), r1, IF r1[e] <= 0 THEN Append(f, e) ELSE f)

Full(k) == Len(buf[k]) = N

\* update(e) up to the size test
Arrive(e) ==
    /\ e = arrived + 1 /\ e <= NE /\ up = 0
    /\ \A k \in Keys : ~Full(k)
    /\ arrived' = e /\ up' = e
    /\ arrAt' = [arrAt EXCEPT ![e] = now]
    /\ rc' = [rc EXCEPT ![e] = @ + 2]             \* upstream bracket + partition.update
    /\ LET k == Key(e) IN
       /\ buf' = [buf EXCEPT ![k] = Append(@, e)]
       /\ timer' = IF Len(buf[k]) + 1 = N
                   THEN [timer EXCEPT ![k] = -1]                    \* size flush: cancel (N = 1: never armed)
                   ELSE IF Len(buf[k]) = 0 /\ Timed
                   THEN [timer EXCEPT ![k] = now + Timeout]          \* first element of the group arms the timer
                   ELSE timer
       /\ trig' = [trig EXCEPT ![e] = (Len(buf[k]) + 1 = N)]
    /\ UNCHANGED <<now, fl, batches, fired, emitDone, raised>>

\* the flush that update() performs synchronously when the buffer is full
SizeFlush(k) ==
    /\ Full(k) /\ up # 0 /\ Key(up) = k
    /\ fl' = Append(fl, [es |-> buf[k], busy |-> ~SyncCons, by |-> up, failed |-> FALSE])
    /\ batches' = Append(batches, <<buf[k], now, "size">>)
    /\ buf' = [buf EXCEPT ![k] = <<>>]
    /\ UNCHANGED <<arrived, timer, now, arrAt, rc, fired, up, emitDone, trig, raised>>

\* the armed timer of key k expires: flush what is there
TimerFire(k) ==
    /\ timer[k] >= 0 /\ now >= timer[k] /\ up = 0
    /\ timer' = [timer EXCEPT ![k] = -1]
    /\ fl' = Append(fl, [es |-> buf[k], busy |-> ~SyncCons, by |-> 0, failed |-> FALSE])
    /\ batches' = Append(batches, <<buf[k], now, "timer">>)
    /\ buf' = [buf EXCEPT ![k] = <<>>]
    /\ UNCHANGED <<arrived, now, arrAt, rc, fired, up, emitDone, trig, raised>>

ConsumerDone(i) ==
    /\ i \in 1 .. Len(fl) /\ fl[i].busy /\ up = 0
    /\ fl' = [fl EXCEPT ![i].busy = FALSE]
    /\ UNCHANGED <<arrived, buf, timer, now, batches, arrAt, rc, fired, up, emitDone, trig, raised>>

\* the consumer's awaitable raises: `yield self._emit` raises inside _flush, which never reaches its release: the batch
\* stays retained for ever (it stays in fl, marked failed).  The exception surfaces in the update() that awaited the
\* flush (and from there at the emitter); the exception of a timer flush is nobody's.
ConsumerFail(i) ==
    /\ Faults /\ i \in 1 .. Len(fl) /\ fl[i].busy /\ up = 0
    /\ fl' = [fl EXCEPT ![i].busy = FALSE, ![i].failed = TRUE]
    /\ UNCHANGED <<arrived, buf, timer, now, batches, arrAt, rc, fired, up, emitDone, trig, raised>>

FlushAbort(i) ==
    /\ i \in 1 .. Len(fl) /\ fl[i].failed /\ (IF fl[i].by = 0 THEN FALSE ELSE trig[fl[i].by])
    /\ trig' = [trig EXCEPT ![fl[i].by] = FALSE] /\ raised' = raised \cup {fl[i].by}
    /\ UNCHANGED <<arrived, buf, timer, now, fl, batches, arrAt, rc, fired, up, emitDone>>

EmitRaised(e) ==
    /\ e \in raised /\ ~emitDone[e] /\ up # e
    /\ emitDone' = [emitDone EXCEPT ![e] = TRUE]
    /\ UNCHANGED <<arrived, buf, timer, now, fl, batches, arrAt, rc, fired, up, trig, raised>>

Settled(i) == fl[i].failed /\ (IF fl[i].by = 0 THEN TRUE ELSE ~trig[fl[i].by])

\* _flush resumes after the downstream emission: release the batch; the flush is over
FlushRelease(i) ==
    /\ i \in 1 .. Len(fl) /\ ~fl[i].busy /\ ~fl[i].failed
    /\ up = 0 \/ up = fl[i].by
    /\ LET rf == ReleaseAll(fl[i].es, rc, fired) IN rc' = rf[1] /\ fired' = rf[2]
    /\ trig' = IF fl[i].by # 0 THEN [trig EXCEPT ![fl[i].by] = FALSE] ELSE trig
    /\ fl' = SubSeq(fl, 1, i - 1) \o SubSeq(fl, i + 1, Len(fl))
    /\ UNCHANGED <<arrived, buf, timer, now, batches, arrAt, up, emitDone, raised>>

\* update(e) has suspended (awaiting its flush) or returned: the upstream closes its bracket
UpRelease(e) ==
    /\ up = e /\ ~Full(Key(e))
    /\ ~trig[e] \/ \E i \in 1 .. Len(fl) : fl[i].by = e /\ fl[i].busy
    /\ up' = 0
    /\ rc' = [rc EXCEPT ![e] = @ - 1]
    /\ fired' = IF rc[e] - 1 <= 0 THEN Append(fired, e) ELSE fired
    /\ UNCHANGED <<arrived, buf, timer, now, fl, batches, arrAt, emitDone, trig, raised>>

\* the producer's awaitable: update(e)'s future resolves when its own size flush (if any) is over
EmitDone(e) ==
    /\ e <= arrived /\ up # e /\ ~trig[e] /\ ~emitDone[e] /\ e \notin raised
    /\ emitDone' = [emitDone EXCEPT ![e] = TRUE]
    /\ UNCHANGED <<arrived, buf, timer, now, fl, batches, arrAt, rc, fired, up, trig, raised>>

Advance ==
    /\ now < MaxTime /\ up = 0
    /\ \A k \in Keys : ~(timer[k] >= 0 /\ now >= timer[k])
    /\ \A i \in 1 .. Len(fl) : fl[i].busy \/ Settled(i)
    /\ now' = now + 1
    /\ UNCHANGED <<arrived, buf, timer, fl, batches, arrAt, rc, fired, up, emitDone, trig, raised>>

Internal == (\E k \in Keys : SizeFlush(k) \/ TimerFire(k)) \/ (\E i \in 1 .. NE : FlushRelease(i) \/ FlushAbort(i)) \/ (\E e \in Elems : UpRelease(e))
Next == (\E e \in Elems : Arrive(e) \/ EmitDone(e) \/ EmitRaised(e)) \/ Internal \/ (\E i \in 1 .. NE : ConsumerDone(i) \/ ConsumerFail(i)) \/ Advance
Spec == Init /\ [][Next]_vars

----------------------------------------------------------------------------
InSeq(s, e) == \E i \in 1 .. Len(s) : s[i] = e
RECURSIVE Flat(_)
Flat(bs) == IF bs = <<>> THEN <<>> ELSE Head(bs)[1] \o Flat(Tail(bs))
OfKey(s, k) == SelectSeq(s, LAMBDA e : Key(e) = k)
TypeOK == /\ \A k \in Keys : timer[k] >= -1
          /\ up \in 0 .. NE

\* C08 conservation: for every key, the batches emitted for it followed by its buffer are exactly its
\* arrivals in arrival order (each element in exactly one batch, nothing lost, order kept)
Conservation == \A k \in Keys : OfKey(Flat(batches), k) \o buf[k] = OfKey([i \in 1 .. arrived |-> i], k)
OneKeyPerBatch == \A b \in 1 .. Len(batches) : \A i, j \in 1 .. Len(batches[b][1]) :
                      Key(batches[b][1][i]) = Key(batches[b][1][j])
SizeBound == /\ \A b \in 1 .. Len(batches) : Len(batches[b][1]) <= N
             /\ \A k \in Keys : Len(buf[k]) <= N
NoEmptyBatch == \A b \in 1 .. Len(batches) : batches[b][1] # <<>>
\* a partial partition is only ever produced by the timeout of its first element, exactly on time
PartialOnlyOnTimeout == \A b \in 1 .. Len(batches) :
                            Len(batches[b][1]) < N => /\ batches[b][3] = "timer"
                                                      /\ batches[b][2] = arrAt[batches[b][1][1]] + Timeout
\* C08 deadline
Deadline == Timed => \A b \in 1 .. Len(batches) : \A i \in 1 .. Len(batches[b][1]) :
                               batches[b][2] - arrAt[batches[b][1][i]] <= Timeout
NoOverdue == Timed => \A k \in Keys : \A i \in 1 .. Len(buf[k]) : now - arrAt[buf[k][i]] <= Timeout
\* an armed timer always belongs to a non-empty group and was armed by its first element
TimerSane == \A k \in Keys : timer[k] >= 0 => (buf[k] # <<>> /\ timer[k] = arrAt[buf[k][1]] + Timeout)
ArmedWhenNeeded == (Timed /\ N > 1) => \A k \in Keys : (buf[k] # <<>> /\ ~Full(k)) => timer[k] >= 0

\* C04 / C05
InFlight(e) == (\E k \in Keys : InSeq(buf[k], e)) \/ (\E i \in 1 .. Len(fl) : InSeq(fl[i].es, e))
CbSafe == \A i \in 1 .. Len(fired) : ~InFlight(fired[i])
RcBalance == /\ \A e \in Elems : rc[e] >= 0
             /\ \A e \in Elems : rc[e] = (IF InFlight(e) THEN 1 ELSE 0) + (IF up = e THEN 1 ELSE 0)
             /\ \A e \in Elems : Cardinality({i \in 1 .. Len(fired) : fired[i] = e}) <= 1
=============================================================================
