------------------------ MODULE AsyncPartitionTrace ------------------------
(* Trace validation of the real partition(n, timeout, key) node against AsyncPartition. *)
EXTENDS AsyncPartition, Json, IOUtils, TLCExt

Traces == JsonDeserialize(IOEnv.TRACE_FILE)
VARIABLES tid, l
tvars == <<vars, tid, l>>
T == Traces[tid].ev
Same == UNCHANGED vars
Max(a, b) == IF a > b THEN a ELSE b
NewFired == SubSeq(fired', Len(fired) + 1, Len(fired'))

TraceInit == /\ tid \in 1 .. Len(Traces) /\ l = 1 /\ Init /\ TLCSet(tid, 1)

TraceAdvance(t) ==
    /\ t > now /\ up = 0
    /\ \A k \in Keys : ~(timer[k] >= 0 /\ now >= timer[k])
    /\ \A k \in Keys : timer[k] >= 0 => timer[k] >= t
    /\ \A i \in 1 .. Len(fl) : fl[i].busy \/ Settled(i)
    /\ now' = t
    /\ UNCHANGED <<arrived, buf, timer, fl, batches, arrAt, rc, fired, up, emitDone, trig, raised>>

\* index of the in-flight flush carrying exactly the batch es
FlushOf(es) == CHOOSE i \in 1 .. Len(fl) : fl[i].es = es

Event(ev) ==
    CASE ev.ev = "Arrive" -> Arrive(ev.e)
      [] ev.ev = "Flush" -> ev.md = ev.es /\ \E k \in Keys : buf[k] = ev.es /\ (SizeFlush(k) \/ TimerFire(k))
      [] ev.ev = "ConsumerDone" -> (\E i \in 1 .. Len(fl) : fl[i].es = ev.es) /\ ConsumerDone(FlushOf(ev.es))
      [] ev.ev = "FlushRelease" -> (\E i \in 1 .. Len(fl) : fl[i].es = ev.es) /\ FlushRelease(FlushOf(ev.es))
                                   /\ NewFired = ev.fired
      [] ev.ev = "UpRelease" -> UpRelease(ev.e) /\ rc'[ev.e] = ev.count /\ (ev.fired <=> (Len(fired') > Len(fired)))
      [] ev.ev = "ConsumerFail" -> (\E i \in 1 .. Len(fl) : fl[i].es = ev.es) /\ ConsumerFail(FlushOf(ev.es))
      [] ev.ev = "EmitRaised" -> EmitRaised(ev.e)
      [] ev.ev = "EmitDone" -> EmitDone(ev.e)
      [] ev.ev = "Advance" -> TraceAdvance(ev.now)
      [] ev.ev = "ObsBuf" -> (\A k \in Keys : buf[k] = ev.buf[k + 1]) /\ Same
      [] ev.ev = "ObsRc" -> (\A e \in 1 .. Len(ev.rc) : rc[e] = ev.rc[e]) /\ Same
      [] ev.ev = "ObsTimers" -> (\A k \in Keys : (timer[k] >= 0) <=> (k \in {ev.armed[i] : i \in 1 .. Len(ev.armed)})) /\ Same
      \* after the drain nothing may be left waiting for a timer that does not exist
      [] ev.ev = "End" -> (Timed => \A k \in Keys : buf[k] = <<>> /\ timer[k] = -1) /\ Same
      [] OTHER -> FALSE

TraceNext ==
    \/ /\ l <= Len(T) /\ Event(T[l])
       /\ l' = l + 1 /\ TLCSet(tid, Max(TLCGet(tid), l + 1)) /\ UNCHANGED tid
       /\ ((CbSafe /\ ~CbSafe') => PrintT(<<"UNSAFE", Traces[tid].id, l>>))
    \/ /\ l <= Len(T) /\ (\E i \in 1 .. NE : FlushAbort(i)) /\ UNCHANGED <<tid, l>>

TraceSpec == TraceInit /\ [][TraceNext]_tvars
TraceInv == TypeOK /\ Conservation /\ OneKeyPerBatch /\ SizeBound /\ NoEmptyBatch /\ PartialOnlyOnTimeout
            /\ Deadline /\ NoOverdue /\ TimerSane /\ ArmedWhenNeeded /\ RcBalance
Report == \A i \in 1 .. Len(Traces) : PrintT(<<"REACHED", Traces[i].id, TLCGet(i), Len(Traces[i].ev) + 1>>)
=============================================================================
