-------------------------- MODULE AsyncRateLimit --------------------------
(***************************************************************************)
(* streamz.core.rate_limit(interval) (core.py:1514-1542).  update() is a   *)
(* per-call coroutine:                                                     *)
(*     retain(md)                                                          *)
(*     now = time(); old = next; next = max(now, next) + interval          *)
(*     if now < old: yield sleep(old - now)                                *)
(*     yield self._emit(x, md);  release(md)                               *)
(* The reservation is taken before sleeping, so concurrent callers queue   *)
(* up behind each other; asyncio fires timers in deadline order.           *)
(* Time is an integer clock advanced by the environment only when no timer *)
(* is due ("timers fire on time").  Retain = FALSE models the pinned tree  *)
(* before the fix (no retain/release in rate_limit).                       *)
(***************************************************************************)
EXTENDS Integers, Sequences, FiniteSets, TLC

CONSTANTS NE, Interval, SyncCons, MaxTime, Retain,
          Faults,   \* TRUE: the consumer's awaitable may raise
          Feedback  \* TRUE: a cycle through the node (examples/fib_*.py): the consumer may emit the next element into the
                    \* source while it is being handed the current one -- an arrival in the middle of a delivery

VARIABLES arrived, st, slotAt, arrAt, next, now, delivered, busy, rc, fired, emitDone,
          up     \* the element whose update() call is still running synchronously inside the
                 \* upstream's _emit (which holds its own reference around the call); 0: none
VARIABLES upOuter \* [Feedback] the element whose update() call is interrupted, in the middle of handing it to the consumer, by
                  \* the update() call of `up`; 0: none
vars == <<arrived, st, slotAt, arrAt, next, now, delivered, busy, rc, fired, emitDone, up, upOuter>>
Elems == 1 .. NE

Init ==
    /\ arrived = 0 /\ st = [e \in Elems |-> "none"] /\ slotAt = [e \in Elems |-> 0] /\ arrAt = [e \in Elems |-> 0]
    /\ next = 0 /\ now = 0 /\ delivered = <<>> /\ busy = {} /\ rc = [e \in Elems |-> 0] /\ fired = <<>>
    /\ emitDone = [e \in Elems |-> FALSE] /\ up = 0 /\ upOuter = 0

Max(a, b) == IF a > b THEN a ELSE b

\* update(e): take the reservation
Arrive(e) ==
    /\ e = arrived + 1 /\ e <= NE
    /\ arrived' = e
    /\ arrAt' = [arrAt EXCEPT ![e] = now]
    /\ slotAt' = [slotAt EXCEPT ![e] = next]
    /\ next' = Max(now, next) + Interval
    /\ st' = [st EXCEPT ![e] = IF now < next THEN "sleeping" ELSE "ready"]
    /\ \/ up = 0 /\ UNCHANGED upOuter
       \/ Feedback /\ up # 0 /\ upOuter = 0 /\ st[up] = "emitting" /\ up \in busy /\ upOuter' = up     \* from inside the consumer of `up`
    /\ up' = e
    \* the upstream _emit retains once around the call; rate_limit retains once more
    /\ rc' = [rc EXCEPT ![e] = @ + (IF Retain THEN 2 ELSE 1)]
    /\ UNCHANGED <<now, delivered, busy, emitDone, fired>>

Due(e) == st[e] = "ready" \/ (st[e] = "sleeping" /\ now >= slotAt[e])

\* update() has suspended (sleeping / awaiting the consumer) or finished: the upstream's _emit
\* releases the reference it held around the call
UpRelease(e) ==
    /\ up = e
    /\ st[e] \in {"sleeping", "done"} \/ (st[e] = "emitting" /\ e \in busy)
    /\ up' = upOuter /\ upOuter' = 0
    /\ rc' = [rc EXCEPT ![e] = @ - 1]
    /\ fired' = IF rc[e] - 1 <= 0 THEN Append(fired, e) ELSE fired
    /\ UNCHANGED <<arrived, st, slotAt, arrAt, next, now, delivered, busy, emitDone>>

\* while an update() call runs synchronously nothing else can happen
Free(e) == up = 0 \/ up = e

\* the element's coroutine calls _emit: timers fire in deadline order, which is arrival order
RlEmit(e) ==
    /\ Due(e) /\ Free(e)
    /\ \A f \in Elems : f < e => st[f] \notin {"ready", "sleeping"}
    /\ delivered' = Append(delivered, <<e, now>>)
    /\ st' = [st EXCEPT ![e] = "emitting"]
    /\ busy' = IF SyncCons THEN busy ELSE busy \cup {e}
    /\ UNCHANGED <<arrived, slotAt, arrAt, next, now, rc, fired, emitDone, up, upOuter>>

ConsumerDone(e) ==
    /\ e \in busy /\ busy' = busy \ {e} /\ up = 0
    /\ UNCHANGED <<arrived, st, slotAt, arrAt, next, now, delivered, rc, fired, emitDone, up, upOuter>>

\* the consumer's awaitable raises: the exception comes out of `yield self._emit` inside this element's update(),
\* whose future carries it to the emitter; the reference is never released (the element is never reported as done);
\* the other elements' coroutines are not affected
ConsumerFail(e) ==
    /\ Faults /\ e \in busy /\ busy' = busy \ {e} /\ up = 0
    /\ st' = [st EXCEPT ![e] = "failed"]
    /\ UNCHANGED <<arrived, slotAt, arrAt, next, now, delivered, rc, fired, emitDone, up, upOuter>>

\* the emitter sees the exception
EmitRaised(e) ==
    /\ st[e] = "failed" /\ ~emitDone[e] /\ up = 0
    /\ emitDone' = [emitDone EXCEPT ![e] = TRUE]
    /\ UNCHANGED <<arrived, st, slotAt, arrAt, next, now, delivered, busy, rc, fired, up, upOuter>>

\* downstream finished: release; the future returned by update() resolves
RlRelease(e) ==
    /\ st[e] = "emitting" /\ e \notin busy /\ Free(e)
    /\ st' = [st EXCEPT ![e] = "done"]
    /\ IF Retain THEN /\ rc' = [rc EXCEPT ![e] = @ - 1]
                      /\ fired' = IF rc[e] - 1 <= 0 THEN Append(fired, e) ELSE fired
       ELSE UNCHANGED <<rc, fired>>
    /\ UNCHANGED <<arrived, slotAt, arrAt, next, now, delivered, busy, emitDone, up, upOuter>>

EmitDone(e) ==
    /\ st[e] = "done" /\ ~emitDone[e] /\ up = 0
    /\ emitDone' = [emitDone EXCEPT ![e] = TRUE]
    /\ UNCHANGED <<arrived, st, slotAt, arrAt, next, now, delivered, busy, rc, fired, up, upOuter>>

\* the clock moves only when no timer is due and no coroutine is runnable
Advance ==
    /\ now < MaxTime /\ up = 0
    /\ \A e \in Elems : ~Due(e)
    /\ now' = now + 1
    /\ UNCHANGED <<arrived, st, slotAt, arrAt, next, delivered, busy, rc, fired, emitDone, up, upOuter>>

Internal == \E e \in Elems : RlEmit(e) \/ RlRelease(e) \/ UpRelease(e)
Next == (\E e \in Elems : Arrive(e) \/ ConsumerDone(e) \/ ConsumerFail(e) \/ EmitDone(e) \/ EmitRaised(e)) \/ Internal \/ Advance
Spec == Init /\ [][Next]_vars

----------------------------------------------------------------------------
TypeOK == \A e \in Elems : st[e] \in {"none", "sleeping", "ready", "emitting", "done", "failed"}
Quiescent == \A e \in 1 .. arrived : st[e] \in {"done", "failed"}

\* C13: spacing, order, count, no needless delay
Spacing == \A i \in 1 .. (Len(delivered) - 1) : delivered[i + 1][2] - delivered[i][2] >= Interval
Order == \A i \in 1 .. Len(delivered) : delivered[i][1] = i
NoLoss == (now = MaxTime /\ \A e \in Elems : ~Due(e) /\ st[e] # "sleeping") => Len(delivered) = arrived
\* an element arriving when the line has been idle for at least the interval is passed on at once
NoNeedlessDelay ==
    \A i \in 1 .. Len(delivered) :
        LET e == delivered[i][1] IN
        (arrAt[e] >= slotAt[e]) => delivered[i][2] = arrAt[e]
\* nobody waits longer than its reservation
OnTime == \A i \in 1 .. Len(delivered) : delivered[i][2] = Max(arrAt[delivered[i][1]], slotAt[delivered[i][1]])

\* C04 / C05
InFlight(e) == st[e] \in {"sleeping", "ready", "emitting", "failed"}      \* ("failed": never reported as done)
CbSafe == \A i \in 1 .. Len(fired) : ~InFlight(fired[i])
RcBalance == /\ \A e \in Elems : rc[e] >= 0
             /\ \A e \in Elems : rc[e] = (IF InFlight(e) /\ Retain THEN 1 ELSE 0) + (IF up = e \/ upOuter = e THEN 1 ELSE 0)
             /\ \A e \in Elems : Cardinality({i \in 1 .. Len(fired) : fired[i] = e}) <= 1
             /\ \A e \in Elems : (st[e] = "done" /\ up # e /\ upOuter # e) => \E i \in 1 .. Len(fired) : fired[i] = e
=============================================================================
