------------------------ MODULE AsyncRateLimitTrace ------------------------
(* Trace validation of the real rate_limit node against AsyncRateLimit (no silent steps). *)
EXTENDS AsyncRateLimit, Json, IOUtils, TLCExt

Traces == JsonDeserialize(IOEnv.TRACE_FILE)
VARIABLES tid, l
tvars == <<vars, tid, l>>
T == Traces[tid].ev
Same == UNCHANGED vars

TraceInit == /\ tid \in 1 .. Len(Traces) /\ l = 1 /\ Init /\ TLCSet(tid, 1)

\* the driver advances the clock only when the loop is idle, possibly by several units,
\* but never past a pending deadline
TraceAdvance(t) ==
    /\ t > now /\ up = 0
    /\ \A e \in Elems : ~Due(e)
    /\ \A e \in Elems : st[e] = "sleeping" => slotAt[e] >= t
    /\ now' = t
    /\ UNCHANGED <<arrived, st, slotAt, arrAt, next, delivered, busy, rc, fired, emitDone, up, upOuter>>

Event(ev) ==
    CASE ev.ev = "Arrive" -> Arrive(ev.e)
      [] ev.ev = "UpRelease" -> UpRelease(ev.e) /\ rc'[ev.e] = ev.count
                                /\ (ev.fired <=> (Len(fired') > Len(fired)))
      [] ev.ev = "CbEmit" -> RlEmit(ev.e) /\ ev.md = <<ev.e>>
      [] ev.ev = "ConsumerDone" -> ConsumerDone(ev.e)
      [] ev.ev = "ConsumerFail" -> ConsumerFail(ev.e)
      [] ev.ev = "EmitRaised" -> EmitRaised(ev.e)
      [] ev.ev = "Release" -> RlRelease(ev.e) /\ rc'[ev.e] = ev.count
                              /\ (ev.fired <=> (Len(fired') > Len(fired)))
      [] ev.ev = "EmitDone" -> EmitDone(ev.e)
      [] ev.ev = "Advance" -> TraceAdvance(ev.now)
      [] ev.ev = "ObsNext" -> next = ev.next /\ Same
      [] ev.ev = "ObsRc" -> (\A e \in 1 .. Len(ev.rc) : rc[e] = ev.rc[e]) /\ Same
      [] ev.ev = "End" -> (ev.quiescent => Quiescent) /\ Same
      [] OTHER -> FALSE

TraceNext ==
    /\ l <= Len(T) /\ Event(T[l])
    /\ l' = l + 1 /\ TLCSet(tid, Max(TLCGet(tid), l + 1)) /\ UNCHANGED tid

TraceSpec == TraceInit /\ [][TraceNext]_tvars
TraceInv == TypeOK /\ Spacing /\ Order /\ NoNeedlessDelay /\ OnTime /\ CbSafe /\ RcBalance
Report == \A i \in 1 .. Len(Traces) : PrintT(<<"REACHED", Traces[i].id, TLCGet(i), Len(Traces[i].ev) + 1>>)
=============================================================================
