-------------------------- MODULE AsyncTimedWindow --------------------------
(***************************************************************************)
(* streamz.core.timed_window(interval) (core.py:1326-1362) and             *)
(* timed_window_unique(interval, key, keep) (core.py:1365-1481).           *)
(*                                                                         *)
(*   update(x, md): buffer.append(x) [unique: keep first / last per key];  *)
(*                  retain(md); return self.last                           *)
(*   cb(): while True:                                                     *)
(*             L, buffer = buffer, []          (atomic swap)               *)
(*             self.last = convert_yielded(self._emit(L, md of L))         *)
(*             yield self.last                 (blocked by downstream)     *)
(*             release(md of L)                                            *)
(*             yield sleep(interval)                                       *)
(*                                                                         *)
(* A batch (possibly empty) is emitted every tick.  update() returns the   *)
(* awaitable of the batch emitted most recently.  Integer clock advanced   *)
(* by the environment only while the loop is idle.  ReleaseEarly = TRUE    *)
(* models the pinned tree before the fix (release before `yield last`).    *)
(***************************************************************************)
EXTENDS Integers, Sequences, FiniteSets, TLC

CONSTANTS NE, Interval, SyncCons, MaxTime,
          Unique,        \* "none" | "first" | "last"
          Mod,           \* key(e) = e % Mod   (unique variants)
          ReleaseEarly,
          Faults         \* TRUE: the consumer's awaitable may raise

VARIABLES arrived, buf, cbpc, wake, now, batch, batches, consBusy, arrAt, blkAt, blocked, rc, fired,
          awaitOf,   \* awaitOf[e]: index of the batch whose completion update(e) handed back (0: gen.moment)
          doneUpTo,  \* batches 1..doneUpTo have been completely handled downstream
          emitDone,
          failedBatch  \* index of the batch whose consumer raised (0: none)
vars == <<arrived, buf, cbpc, wake, now, batch, batches, consBusy, arrAt, blkAt, blocked, rc, fired,
          awaitOf, doneUpTo, emitDone, failedBatch>>
Elems == 1 .. NE
Key(e) == e % Mod

Init ==
    /\ arrived = 0 /\ buf = <<>> /\ cbpc = "start" /\ wake = 0 /\ now = 0 /\ batch = <<>> /\ batches = <<>>
    /\ consBusy = FALSE /\ arrAt = [e \in Elems |-> 0] /\ blkAt = [e \in Elems |-> 0] /\ blocked = 0
    /\ rc = [e \in Elems |-> 0] /\ fired = <<>> /\ awaitOf = [e \in Elems |-> 0] /\ doneUpTo = 0
    /\ emitDone = [e \in Elems |-> FALSE] /\ failedBatch = 0

RECURSIVE ReleaseAll(_, _, _)
ReleaseAll(s, r, f) ==       \* release every element of s; returns <<rc, fired>>
    IF s = <<>> THEN <<r, f>>
    ELSE LET e == Head(s)
             r1 == [r EXCEPT ![e] = @ - 1]
         IN ReleaseAll(Tail(s), r1, IF r1[e] <= 0 THEN Append(f, e) ELSE f)

SameKey(e) == SelectSeq(buf, LAMBDA f : Key(f) = Key(e))

\* update(e)
Arrive(e) ==
    /\ e = arrived + 1 /\ e <= NE
    /\ arrived' = e
    /\ arrAt' = [arrAt EXCEPT ![e] = now] /\ blkAt' = [blkAt EXCEPT ![e] = blocked]
    /\ awaitOf' = [awaitOf EXCEPT ![e] = Len(batches)]
    /\ IF Unique = "none" \/ SameKey(e) = <<>>
       THEN /\ buf' = Append(buf, e) /\ rc' = [rc EXCEPT ![e] = @ + 1] /\ UNCHANGED fired
       ELSE IF Unique = "first"
       THEN \* dropped: retained and released at once; the count reaches zero when the upstream's
            \* own bracket closes at the end of this call, so the callback fires now
            /\ buf' = buf /\ rc' = rc /\ fired' = Append(fired, e)
       ELSE \* keep = "last": the older element of this key is replaced and released
            LET old == SameKey(e)[1]
                rf == ReleaseAll(<<old>>, [rc EXCEPT ![e] = @ + 1], fired)
            IN /\ buf' = Append(SelectSeq(buf, LAMBDA f : f # old), e)
               /\ rc' = rf[1] /\ fired' = rf[2]
    /\ UNCHANGED <<cbpc, wake, now, batch, batches, consBusy, blocked, doneUpTo, emitDone, failedBatch>>

\* cb: swap the buffer and emit it
Tick ==
    /\ cbpc = "start" \/ (cbpc = "sleeping" /\ now >= wake)
    /\ batch' = buf /\ buf' = <<>>
    /\ batches' = Append(batches, <<buf, now>>)
    /\ consBusy' = ~SyncCons
    /\ cbpc' = "awaiting"
    /\ IF ReleaseEarly
       THEN LET rf == ReleaseAll(buf, rc, fired) IN rc' = rf[1] /\ fired' = rf[2]
       ELSE UNCHANGED <<rc, fired>>
    \* self.last (what update() hands to producers) completes as soon as the consumer has finished
    /\ doneUpTo' = IF SyncCons THEN Len(batches) + 1 ELSE doneUpTo
    /\ UNCHANGED <<arrived, wake, now, arrAt, blkAt, blocked, awaitOf, emitDone, failedBatch>>

ConsumerDone ==
    /\ consBusy /\ consBusy' = FALSE
    /\ doneUpTo' = Len(batches)
    /\ UNCHANGED <<arrived, buf, cbpc, wake, now, batch, batches, arrAt, blkAt, blocked, rc, fired, awaitOf, emitDone, failedBatch>>

\* the consumer's awaitable raises: `yield self.last` raises inside cb, which ends; the batch stays retained for ever,
\* no further batch is ever emitted, and `self.last` -- handed to every later update() -- carries the exception
ConsumerFail ==
    /\ Faults /\ consBusy /\ consBusy' = FALSE
    /\ cbpc' = "dead" /\ failedBatch' = Len(batches)
    /\ UNCHANGED <<arrived, buf, wake, now, batch, batches, arrAt, blkAt, blocked, rc, fired, awaitOf, doneUpTo, emitDone>>

\* the producers that were handed the failed batch's awaitable see the exception
EmitRaised(e) ==
    /\ e <= arrived /\ ~emitDone[e] /\ failedBatch # 0 /\ awaitOf[e] = failedBatch
    /\ emitDone' = [emitDone EXCEPT ![e] = TRUE]
    /\ UNCHANGED <<arrived, buf, cbpc, wake, now, batch, batches, consBusy, arrAt, blkAt, blocked, rc, fired, awaitOf, doneUpTo, failedBatch>>

\* downstream finished with the batch: release it and go to sleep
TickRelease ==
    /\ cbpc = "awaiting" /\ ~consBusy
    /\ IF ReleaseEarly THEN UNCHANGED <<rc, fired>>
       ELSE LET rf == ReleaseAll(batch, rc, fired) IN rc' = rf[1] /\ fired' = rf[2]
    /\ cbpc' = "sleeping" /\ wake' = now + Interval /\ batch' = <<>>
    /\ UNCHANGED <<arrived, buf, now, batches, consBusy, arrAt, blkAt, blocked, awaitOf, emitDone, doneUpTo, failedBatch>>

\* the producer sees its emit complete: the awaitable it was handed has finished
EmitDone(e) ==
    /\ e <= arrived /\ ~emitDone[e] /\ awaitOf[e] <= doneUpTo
    /\ emitDone' = [emitDone EXCEPT ![e] = TRUE]
    /\ UNCHANGED <<arrived, buf, cbpc, wake, now, batch, batches, consBusy, arrAt, blkAt, blocked, rc, fired, awaitOf, doneUpTo, failedBatch>>

Advance ==
    /\ now < MaxTime
    /\ cbpc # "start" /\ ~(cbpc = "sleeping" /\ now >= wake)
    /\ ~(cbpc = "awaiting" /\ ~consBusy)
    /\ now' = now + 1
    /\ blocked' = IF cbpc = "awaiting" THEN blocked + 1 ELSE blocked
    /\ UNCHANGED <<arrived, buf, cbpc, wake, batch, batches, consBusy, arrAt, blkAt, rc, fired, awaitOf, doneUpTo, emitDone, failedBatch>>

Internal == Tick \/ TickRelease
Next == (\E e \in Elems : Arrive(e) \/ EmitDone(e) \/ EmitRaised(e)) \/ Internal \/ ConsumerDone \/ ConsumerFail \/ Advance
Spec == Init /\ [][Next]_vars

----------------------------------------------------------------------------
TypeOK == cbpc \in {"start", "awaiting", "sleeping", "dead"}
RECURSIVE Flat(_)
Flat(bs) == IF bs = <<>> THEN <<>> ELSE Head(bs)[1] \o Flat(Tail(bs))
Emitted == Flat(batches)
InSeq(s, e) == \E i \in 1 .. Len(s) : s[i] = e
\* the arrivals that fell into the k-th window (between the (k-1)-th and the k-th tick)
WindowOf(k) == SelectSeq([i \in 1 .. arrived |-> i], LAMBDA e : awaitOf[e] = k - 1)
Dedup(s) ==
    IF Unique = "none" THEN s
    ELSE IF Unique = "first"
    THEN SelectSeq(s, LAMBDA e : \A f \in 1 .. (e - 1) : ~(InSeq(s, f) /\ Key(f) = Key(e)))
    ELSE SelectSeq(s, LAMBDA e : \A f \in (e + 1) .. arrived : ~(InSeq(s, f) /\ Key(f) = Key(e)))

\* C08 (conservation): the k-th batch is exactly the k-th window (de-duplicated by the keep rule), in
\* arrival order; what has not been emitted yet is exactly the current window.  Hence every element is in
\* exactly one batch, nothing is lost or repeated, order is preserved.
BatchExact == /\ \A k \in 1 .. Len(batches) : batches[k][1] = Dedup(WindowOf(k))
              /\ buf = Dedup(WindowOf(Len(batches) + 1))
\* C08 deadline: emitted no later than one interval after arrival plus the time the node was blocked
Deadline == \A b \in 1 .. Len(batches) : \A i \in 1 .. Len(batches[b][1]) :
                LET e == batches[b][1][i] IN
                batches[b][2] - arrAt[e] <= Interval + (blocked - blkAt[e])
\* nothing waits in the buffer beyond its deadline while the node is free to tick
NoOverdue == cbpc # "dead" => \A i \in 1 .. Len(buf) : (now - arrAt[buf[i]]) <= Interval + (blocked - blkAt[buf[i]])

\* C04 / C05
InFlight(e) == InSeq(buf, e) \/ (InSeq(batch, e) /\ cbpc \in {"awaiting", "dead"})
CbSafe == \A i \in 1 .. Len(fired) : ~InFlight(fired[i])
RcBalance == /\ \A e \in Elems : rc[e] >= 0
             /\ \A e \in Elems : rc[e] = (IF InSeq(buf, e) \/ (~ReleaseEarly /\ InSeq(batch, e) /\ cbpc \in {"awaiting", "dead"}) THEN 1 ELSE 0)
             /\ \A e \in Elems : Cardinality({i \in 1 .. Len(fired) : fired[i] = e}) <= 1
=============================================================================
