----------------------- MODULE AsyncTimedWindowTrace -----------------------
(* Trace validation of the real timed_window / timed_window_unique nodes.  *)
(* TickRelease of an empty batch releases nothing and is therefore silent. *)
EXTENDS AsyncTimedWindow, Json, IOUtils, TLCExt

Traces == JsonDeserialize(IOEnv.TRACE_FILE)
VARIABLES tid, l
tvars == <<vars, tid, l>>
T == Traces[tid].ev
Same == UNCHANGED vars
Max(a, b) == IF a > b THEN a ELSE b
NewFired == SubSeq(fired', Len(fired) + 1, Len(fired'))

TraceInit == /\ tid \in 1 .. Len(Traces) /\ l = 1 /\ Init /\ TLCSet(tid, 1)

TraceAdvance(t) ==
    /\ t > now
    /\ cbpc # "start" /\ ~(cbpc = "sleeping" /\ now >= wake) /\ ~(cbpc = "awaiting" /\ ~consBusy)
    /\ cbpc = "sleeping" => wake >= t
    /\ now' = t
    /\ blocked' = IF cbpc = "awaiting" THEN blocked + (t - now) ELSE blocked
    /\ UNCHANGED <<arrived, buf, cbpc, wake, batch, batches, consBusy, arrAt, blkAt, rc, fired, awaitOf, doneUpTo, emitDone, failedBatch>>

Event(ev) ==
    CASE ev.ev = "Arrive" -> Arrive(ev.e) /\ NewFired = ev.fired
      [] ev.ev = "Tick" -> Tick /\ buf = ev.es /\ NewFired = ev.fired /\ ev.md = ev.es     \* C10: members' metadata, member order
      [] ev.ev = "ConsumerDone" -> ConsumerDone
      [] ev.ev = "ConsumerFail" -> ConsumerFail
      [] ev.ev = "EmitRaised" -> EmitRaised(ev.e)
      [] ev.ev = "TickRelease" -> TickRelease /\ batch = ev.es /\ NewFired = ev.fired
      [] ev.ev = "EmitDone" -> EmitDone(ev.e)
      [] ev.ev = "Advance" -> TraceAdvance(ev.now)
      [] ev.ev = "ObsBuf" -> buf = ev.buf /\ Same
      [] ev.ev = "ObsRc" -> (\A e \in 1 .. Len(ev.rc) : rc[e] = ev.rc[e]) /\ Same
      \* after the drain (the driver lets the clock run while anything is held) nothing that was accepted is left behind
      [] ev.ev = "End" -> (cbpc # "dead" => buf = <<>>) /\ Same
      [] OTHER -> FALSE

TraceNext ==
    \/ /\ l <= Len(T) /\ Event(T[l])
       /\ l' = l + 1 /\ TLCSet(tid, Max(TLCGet(tid), l + 1)) /\ UNCHANGED tid
       /\ ((CbSafe /\ ~CbSafe') => PrintT(<<"UNSAFE", Traces[tid].id, l>>))
    \/ /\ l <= Len(T) /\ batch = <<>> /\ TickRelease /\ UNCHANGED <<tid, l>>

TraceSpec == TraceInit /\ [][TraceNext]_tvars
TraceInv == TypeOK /\ BatchExact /\ Deadline /\ NoOverdue /\ RcBalance
Report == \A i \in 1 .. Len(Traces) : PrintT(<<"REACHED", Traces[i].id, TLCGet(i), Len(Traces[i].ev) + 1>>)
=============================================================================
