------------------------------ MODULE AsyncZip ------------------------------
(***************************************************************************)
(* streamz.core.zip(upstreams..., maxsize) with asynchronous producers       *)
(* (core.py:1575-1649).                                                    *)
(*   update(x, who): retain; L = buffers[who]; L.append(x)                 *)
(*     if len(L) == 1 and all buffers non-empty:                           *)
(*         pop the heads; condition.notify_all(); emit the tuple; release; *)
(*         return the downstream awaitables                                *)
(*     elif len(L) > maxsize: return _wait_for_room(L)                     *)
(*   _wait_for_room(L): while len(L) > maxsize: yield condition.wait()     *)
(* Element <<i, n>> is the n-th element of input i.  Recheck = FALSE       *)
(* models the pinned tree before the fix: every blocked emit completes at  *)
(* the first notify_all, whether or not its buffer has room.               *)
(***************************************************************************)
EXTENDS Integers, Sequences, FiniteSets, TLC

CONSTANTS K, NE, MaxSize, SyncCons, MaxOut, Recheck

VARIABLES arr, buf, est, tuples, busy, emitDone, trig
\* arr[i]: arrivals on input i; buf[i]: buffered element numbers; est[i][n]: "none" | "accepted" | "waiting" | "woken" | "trigger"
\* tuples: history of emitted tuples (sequence of K-tuples of element numbers); busy: tuple indices whose consumer is unfinished
\* trig[i][n]: the tuple whose downstream awaitables update(<<i,n>>) returned (0: none)
vars == <<arr, buf, est, tuples, busy, emitDone, trig>>
In == 1 .. K
Ns == 1 .. NE

Init == /\ arr = [i \in In |-> 0] /\ buf = [i \in In |-> <<>>]
        /\ est = [i \in In |-> [n \in Ns |-> "none"]] /\ tuples = <<>> /\ busy = {}
        /\ emitDone = [i \in In |-> [n \in Ns |-> FALSE]] /\ trig = [i \in In |-> [n \in Ns |-> 0]]

Outstanding(i) == Cardinality({n \in 1 .. arr[i] : ~emitDone[i][n]})

Arrive(i) ==
    LET n == arr[i] + 1
        b1 == [buf EXCEPT ![i] = Append(@, n)]
        complete == Len(b1[i]) = 1 /\ \A j \in In : b1[j] # <<>>
    IN /\ n <= NE /\ Outstanding(i) < MaxOut
       /\ arr' = [arr EXCEPT ![i] = n]
       /\ IF complete
          THEN /\ tuples' = Append(tuples, [j \in In |-> Head(b1[j])])
               /\ buf' = [j \in In |-> Tail(b1[j])]
               /\ busy' = IF SyncCons THEN busy ELSE busy \cup {Len(tuples) + 1}
               /\ trig' = [trig EXCEPT ![i][n] = Len(tuples) + 1]
               \* notify_all: every waiter wakes up (and, fixed, looks at its buffer again)
               /\ est' = [j \in In |-> [m \in Ns |->
                              IF j = i /\ m = n THEN "trigger"
                              ELSE IF est[j][m] = "waiting" THEN (IF Recheck THEN "woken" ELSE "accepted")
                              ELSE est[j][m]]]
          ELSE /\ buf' = b1
               /\ est' = [est EXCEPT ![i][n] = IF Len(b1[i]) > MaxSize THEN "waiting" ELSE "accepted"]
               /\ UNCHANGED <<tuples, busy, trig>>
       /\ UNCHANGED emitDone

\* a woken waiter looks at its buffer again
Recheckit(i, n) ==
    /\ est[i][n] = "woken"
    /\ est' = [est EXCEPT ![i][n] = IF Len(buf[i]) > MaxSize THEN "waiting" ELSE "accepted"]
    /\ UNCHANGED <<arr, buf, tuples, busy, emitDone, trig>>

ConsumerDone(t) == /\ t \in busy /\ busy' = busy \ {t}
                   /\ UNCHANGED <<arr, buf, est, tuples, emitDone, trig>>

EmitDone(i, n) ==
    /\ ~emitDone[i][n]
    /\ est[i][n] = "accepted" \/ (est[i][n] = "trigger" /\ trig[i][n] \notin busy)
    /\ emitDone' = [emitDone EXCEPT ![i][n] = TRUE]
    /\ UNCHANGED <<arr, buf, est, tuples, busy, trig>>

Internal == \E i \in In, n \in Ns : Recheckit(i, n)
Next == (\E i \in In : Arrive(i)) \/ Internal \/ (\E t \in 1 .. NE : ConsumerDone(t)) \/ (\E i \in In, n \in Ns : EmitDone(i, n))
Spec == Init /\ [][Next]_vars

----------------------------------------------------------------------------
Range(s) == {s[x] : x \in 1 .. Len(s)}
\* C02: the j-th tuple is made of the j-th element of every input; nothing lost or repeated
ZipExact == /\ \A t \in 1 .. Len(tuples) : \A i \in In : tuples[t][i] = t
            /\ \A i \in In : buf[i] = [x \in 1 .. (arr[i] - Len(tuples)) |-> Len(tuples) + x]
\* C03: per input, at most maxsize elements whose emit has been let through are still waiting in the node
Completed(i) == {n \in Range(buf[i]) : est[i][n] = "accepted"}
Bound == \A i \in In : Cardinality(Completed(i)) <= MaxSize
\* C03: a blocked emit is not forgotten: whenever its buffer has room again it is on its way to completion
NoLostWakeup == \A i \in In, n \in Ns : est[i][n] = "waiting" => Len(buf[i]) > MaxSize
=============================================================================
