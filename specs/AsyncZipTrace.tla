---------------------------- MODULE AsyncZipTrace ----------------------------
(* Trace validation of the real zip(maxsize) node with asynchronous producers against AsyncZip.  The re-check *)
(* of a woken waiter is silent.                                                                              *)
EXTENDS AsyncZip, Json, IOUtils, TLCExt
Traces == JsonDeserialize(IOEnv.TRACE_FILE)
VARIABLES tid, l
tvars == <<vars, tid, l>>
T == Traces[tid].ev
Same == UNCHANGED vars
Max(a, b) == IF a > b THEN a ELSE b
TraceInit == /\ tid \in 1 .. Len(Traces) /\ l = 1 /\ Init /\ TLCSet(tid, 1)
Event(ev) ==
    CASE ev.ev = "Arrive" -> /\ Arrive(ev.i) /\ arr'[ev.i] = ev.n
                             /\ IF ev.tuple = <<>> THEN tuples' = tuples
                                ELSE Len(tuples') = Len(tuples) + 1 /\ tuples'[Len(tuples')] = ev.tuple /\ ev.mdok
      [] ev.ev = "ConsumerDone" -> ConsumerDone(ev.t)
      [] ev.ev = "EmitDone" -> EmitDone(ev.i, ev.n)
      [] ev.ev = "ObsBufs" -> (\A i \in In : buf[i] = ev.bufs[i]) /\ Same
      \* after the drain every emit that is allowed to complete has completed (no lost wake-up)
      [] ev.ev = "End" -> /\ \A i \in In, n \in Ns : est[i][n] # "woken"
                          /\ \A i \in In, n \in Ns : (est[i][n] = "accepted" \/ (est[i][n] = "trigger" /\ trig[i][n] \notin busy)) => emitDone[i][n]
                          /\ Same
      [] OTHER -> FALSE
TraceNext ==
    \/ /\ l <= Len(T) /\ Event(T[l])
       /\ l' = l + 1 /\ TLCSet(tid, Max(TLCGet(tid), l + 1)) /\ UNCHANGED tid
    \/ /\ l <= Len(T) /\ Internal /\ UNCHANGED <<tid, l>>
TraceSpec == TraceInit /\ [][TraceNext]_tvars
TraceInv == ZipExact /\ Bound /\ NoLostWakeup
Report == \A i \in 1 .. Len(Traces) : PrintT(<<"REACHED", Traces[i].id, TLCGet(i), Len(Traces[i].ev) + 1>>)
=============================================================================
