------------------------------- MODULE DFAgg -------------------------------
(***************************************************************************)
(* Streaming dataframe aggregations: streamz/dataframe/aggregations.py and *)
(* the accumulators of streamz/dataframe/core.py, transcribed for one      *)
(* value column (a Series), a key column and an integer timestamp index.   *)
(*                                                                         *)
(* A batch is a sequence of rows [v, k, t]; v = NaN (99) is a missing      *)
(* value.  Stream.accumulate folds batches into a state `acc` with         *)
(*      acc', result = func(acc, batch)        (returns_state=True)        *)
(* where func is accumulator / groupby_accumulator / window_accumulator /  *)
(* windowed_groupby_accumulator / rolling_accumulator /                    *)
(* _cumulative_accumulator.  Step(acc, b) transcribes func for the         *)
(* configured aggregation; Batch(rows) is the list-level definition of     *)
(* what pandas computes on a whole table.  Numbers are exact rationals     *)
(* <<num, den>>; <<0, 0>> is NaN.                                          *)
(***************************************************************************)
EXTENDS Integers, Sequences, FiniteSets, TLC

CONSTANTS Family,   \* "reduce" | "groupby" | "window" | "wgroupby" | "rolling" | "cumulative" | "ewm"
          Agg,      \* reduce/window: "sum" "count" "size" "mean" "var" "value_counts"; groupby: "sum" "count" "size" "mean" "var";
                    \* rolling: "sum" "count" "mean" "min" "max"; cumulative: "cumsum" "cumprod" "cummin" "cummax"; ewm: "mean"
          WinKind,  \* "rows" | "time" | "expanding"
          W,        \* window size: rows (N) or time (T); ewm: com
          VDom, KDom, DtDom, MaxRows, MaxBatches,
          MeanClamp, \* TRUE: the pinned tree before the fix (Mean stores the clamped count in its state)
          CarryNaN   \* TRUE: the pinned tree before the fix (_cumulative_accumulator carries a trailing NaN)

VARIABLES acc, seen, out, outs, nb, accB, outB, cut
vars == <<acc, seen, out, outs, nb, accB, outB, cut>>

NaN == 99
NaNQ == <<0, 0>>
None == <<>>          \* accumulate.state before the first batch; otherwise <<state>>
Q(n) == <<n, 1>>
IsNaN(q) == q[2] = 0
\* equality of rationals (NaN = NaN)
QEq(a, b) == IF IsNaN(a) \/ IsNaN(b) THEN IsNaN(a) /\ IsNaN(b) ELSE a[1] * b[2] = b[1] * a[2]
RECURSIVE GCD(_, _)
GCD(a, b) == IF b = 0 THEN a ELSE GCD(b, a % b)
Abs(x) == IF x < 0 THEN -x ELSE x
Norm(q) == IF q[2] = 0 THEN q
           ELSE LET g == GCD(Abs(q[1]), q[2]) IN IF g <= 1 THEN q ELSE <<q[1] \div g, q[2] \div g>>
QDiv(n, d) == IF d = 0 THEN NaNQ ELSE IF d < 0 THEN Norm(<<-n, -d>>) ELSE Norm(<<n, d>>)
QAdd(a, b) == IF IsNaN(a) \/ IsNaN(b) THEN NaNQ ELSE Norm(<<a[1] * b[2] + b[1] * a[2], a[2] * b[2]>>)
QMul(a, b) == IF IsNaN(a) \/ IsNaN(b) THEN NaNQ ELSE Norm(<<a[1] * b[1], a[2] * b[2]>>)
QLess(a, b) == a[1] * b[2] < b[1] * a[2]

RECURSIVE SumSeq(_)
SumSeq(s) == IF s = <<>> THEN 0 ELSE Head(s) + SumSeq(Tail(s))
Vs(rows) == [i \in 1 .. Len(rows) |-> rows[i].v]
Valid(s) == SelectSeq(s, LAMBDA x : x # NaN)
VSum(rows) == SumSeq(Valid(Vs(rows)))                              \* pandas sum skips NaN
VSum2(rows) == SumSeq([i \in 1 .. Len(Valid(Vs(rows))) |-> Valid(Vs(rows))[i] * Valid(Vs(rows))[i]])
VCount(rows) == Len(Valid(Vs(rows)))                               \* count = non-missing
OfKey(rows, k) == SelectSeq(rows, LAMBDA r : r.k = k)
OfVal(rows, x) == SelectSeq(rows, LAMBDA r : r.v = x)
Keys(rows) == {rows[i].k : i \in 1 .. Len(rows)}
ValsOf(rows) == {rows[i].v : i \in 1 .. Len(rows)} \ {NaN}

\* var from the three sums, as Var._compute_result does it
VarOf(x, x2, n, ddof) == QDiv(n * x2 - x * x, n * (n - ddof))

----------------------------------------------------------------------------
(* LIST-LEVEL DEFINITIONS: what pandas computes on a whole table *)

RECURSIVE PairSq(_)
PairSq(s) ==        \* sum over i < j of (s[i] - s[j])^2
    IF Len(s) <= 1 THEN 0
    ELSE SumSeq([j \in 1 .. (Len(s) - 1) |-> (s[1] - s[j + 1]) * (s[1] - s[j + 1])]) + PairSq(Tail(s))
\* sample variance: sum_{i<j} (x_i - x_j)^2 / (n (n - ddof))  (independent of the streaming formula)
PVar(rows, ddof) == LET s == Valid(Vs(rows)) IN QDiv(PairSq(s), Len(s) * (Len(s) - ddof))
PMean(rows) == QDiv(VSum(rows), VCount(rows))

Scalar(a, rows) ==
    CASE a = "sum" -> Q(VSum(rows))
      [] a = "count" -> Q(VCount(rows))
      [] a = "size" -> Q(Len(rows))
      [] a = "mean" -> PMean(rows)
      [] a = "var" -> PVar(rows, 1)

\* keyed results are functions from keys (or values) to rationals
ByKey(a, rows) == [k \in Keys(rows) |-> Scalar(a, OfKey(rows, k))]
ValueCounts(rows) == [x \in ValsOf(rows) |-> Q(Len(OfVal(rows, x)))]

LastRows(rows, n) == IF Len(rows) <= n THEN rows ELSE SubSeq(rows, Len(rows) - n + 1, Len(rows))
Newest(rows) == rows[Len(rows)].t
InTime(rows, T) == SelectSeq(rows, LAMBDA r : Newest(rows) - r.t < T)
WindowOf(rows) == CASE WinKind = "rows" -> LastRows(rows, W)
                    [] WinKind = "time" -> IF rows = <<>> THEN rows ELSE InTime(rows, W)
                    [] WinKind = "expanding" -> rows

\* rolling(window).op(): per row the op over the window ending at that row (pandas defaults:
\* min_periods = window for row windows, 1 for time windows)
RollWin(rows, i) == IF WinKind = "rows" THEN SubSeq(rows, IF i - W + 1 < 1 THEN 1 ELSE i - W + 1, i)
                    ELSE SelectSeq(SubSeq(rows, 1, i), LAMBDA r : rows[i].t - r.t < W)
MinPeriods == IF WinKind = "rows" THEN W ELSE 1
RECURSIVE MinOf(_), MaxOf(_)
MinOf(s) == IF Len(s) = 1 THEN s[1] ELSE LET m == MinOf(Tail(s)) IN IF s[1] < m THEN s[1] ELSE m
MaxOf(s) == IF Len(s) = 1 THEN s[1] ELSE LET m == MaxOf(Tail(s)) IN IF s[1] > m THEN s[1] ELSE m
RollOp(a, w) ==
    LET s == Valid(Vs(w)) IN
    \* count: min_periods is measured in rows of the window; the other ops: in valid observations
    IF a = "count" THEN (IF Len(w) < MinPeriods THEN NaNQ ELSE Q(Len(s)))
    ELSE IF Len(s) < MinPeriods THEN NaNQ
    ELSE CASE a = "sum" -> Q(SumSeq(s))
           [] a = "mean" -> QDiv(SumSeq(s), Len(s))
           [] a = "min" -> Q(MinOf(s))
           [] a = "max" -> Q(MaxOf(s))
RollWhole(a, rows) == [i \in 1 .. Len(rows) |-> RollOp(a, RollWin(rows, i))]

\* cumulative ops: NaN rows yield NaN and are skipped by the running value
RECURSIVE CumFrom(_, _, _)
CumFrom(a, run, s) ==      \* run: option (<<>> or <<value>>)
    IF s = <<>> THEN <<>>
    ELSE IF Head(s) = NaN THEN <<NaNQ>> \o CumFrom(a, run, Tail(s))
    ELSE LET x == Head(s)
             r == IF run = <<>> THEN x
                  ELSE CASE a = "cumsum" -> run[1] + x
                         [] a = "cumprod" -> run[1] * x
                         [] a = "cummin" -> IF x < run[1] THEN x ELSE run[1]
                         [] a = "cummax" -> IF x > run[1] THEN x ELSE run[1]
         IN <<Q(r)>> \o CumFrom(a, <<r>>, Tail(s))
CumWhole(a, rows) == CumFrom(a, <<>>, Vs(rows))

\* exponentially weighted mean, adjust=True: y_t = sum_i w^i x_{t-i} / sum_i w^i with w = com / (1 + com)
RECURSIVE Pow2(_, _)
Pow2(b, e) == IF e = 0 THEN 1 ELSE b * Pow2(b, e - 1)
\* y_t over s[1..t] = (sum_{i=0}^{t-1} com^i (1+com)^(t-1-i) s[t-i]) / (sum_{i} com^i (1+com)^(t-1-i))
EwAt(s, t) == QDiv(SumSeq([i \in 1 .. t |-> Pow2(W, i - 1) * Pow2(1 + W, t - i) * s[t - i + 1]]),
                   SumSeq([i \in 1 .. t |-> Pow2(W, i - 1) * Pow2(1 + W, t - i)]))
EwWhole(rows) == [t \in 1 .. Len(rows) |-> EwAt(Vs(rows), t)]

----------------------------------------------------------------------------
(* TRANSCRIPTIONS *)

\* Aggregation.initial / on_new / on_old for a Series (scalar branches)
AInit(a) == CASE a = "sum" -> 0
              [] a = "count" -> 0
              [] a = "size" -> 0
              [] a = "mean" -> <<0, 0>>
              [] a = "var" -> <<0, 0, 0>>
              [] a = "value_counts" -> [x \in {} |-> 0]
FAdd(f, g) == [x \in DOMAIN f \cup DOMAIN g |->
                  (IF x \in DOMAIN f THEN f[x] ELSE 0) + (IF x \in DOMAIN g THEN g[x] ELSE 0)]
FSub(f, g) == [x \in DOMAIN f \cup DOMAIN g |->
                  (IF x \in DOMAIN f THEN f[x] ELSE 0) - (IF x \in DOMAIN g THEN g[x] ELSE 0)]
VCounts(rows) == [x \in ValsOf(rows) |-> Len(OfVal(rows, x))]

\* returns <<state, result>>; sign = 1 for on_new, -1 for on_old
AStep(a, st, rows, sign) ==
    CASE a = "sum" -> LET r == IF sign = 1 /\ rows = <<>> THEN st ELSE st + sign * VSum(rows) IN <<r, Q(r)>>
      [] a = "count" -> LET r == st + sign * VCount(rows) IN <<r, Q(r)>>
      [] a = "size" -> LET r == st + sign * Len(rows) IN <<r, Q(r)>>
      [] a = "mean" ->
            LET tot == IF rows # <<>> THEN st[1] + sign * VSum(rows) ELSE st[1]
                cnt == IF rows # <<>> THEN st[2] + sign * VCount(rows) ELSE st[2]
                clamped == IF cnt = 0 THEN 1 ELSE cnt
            IN IF MeanClamp THEN <<<<tot, clamped>>, QDiv(tot, clamped)>>     \* pinned tree: clamp stored in the state
               ELSE <<<<tot, cnt>>, QDiv(tot, cnt)>>                        \* mean of nothing is NaN, state exact
      [] a = "var" ->
            LET x == IF rows # <<>> THEN st[1] + sign * VSum(rows) ELSE st[1]
                x2 == IF rows # <<>> THEN st[2] + sign * VSum2(rows) ELSE st[2]
                n == IF rows # <<>> THEN st[3] + sign * VCount(rows) ELSE st[3]
            IN <<<<x, x2, n>>, VarOf(x, x2, n, 1)>>
      [] a = "value_counts" ->
            LET r == IF sign = 1 THEN FAdd(st, VCounts(rows)) ELSE FSub(st, VCounts(rows))
            IN <<r, [x \in DOMAIN r |-> Q(r[x])]>>

\* GroupbyAggregation.initial / on_new / on_old: state is keyed
GInit(a) == CASE a \in {"sum", "count", "size"} -> [k \in {} |-> 0]
              [] a = "mean" -> <<[k \in {} |-> 0], [k \in {} |-> 0]>>
              [] a = "var" -> <<[k \in {} |-> 0], [k \in {} |-> 0], [k \in {} |-> 0]>>
KSum(rows) == [k \in Keys(rows) |-> VSum(OfKey(rows, k))]
KSum2(rows) == [k \in Keys(rows) |-> VSum2(OfKey(rows, k))]
KCount(rows) == [k \in Keys(rows) |-> VCount(OfKey(rows, k))]
KSize(rows) == [k \in Keys(rows) |-> Len(OfKey(rows, k))]
FOp(f, g, sign) == IF sign = 1 THEN FAdd(f, g) ELSE FSub(f, g)
GStep(a, st, rows, sign) ==
    CASE a = "sum" -> LET r == FOp(st, KSum(rows), sign) IN <<r, [k \in DOMAIN r |-> Q(r[k])]>>
      [] a = "count" -> LET r == FOp(st, KCount(rows), sign) IN <<r, [k \in DOMAIN r |-> Q(r[k])]>>
      [] a = "size" -> LET r == FOp(st, KSize(rows), sign) IN <<r, [k \in DOMAIN r |-> Q(r[k])]>>
      [] a = "mean" -> LET t == FOp(st[1], KSum(rows), sign)
                           c == FOp(st[2], KCount(rows), sign)
                       IN <<<<t, c>>, [k \in DOMAIN t |-> QDiv(t[k], c[k])]>>
      [] a = "var" -> \* GroupbyVar only folds a non-empty frame
                      LET x == IF rows # <<>> THEN FOp(st[1], KSum(rows), sign) ELSE st[1]
                          x2 == IF rows # <<>> THEN FOp(st[2], KSum2(rows), sign) ELSE st[2]
                          n == IF rows # <<>> THEN FOp(st[3], KCount(rows), sign) ELSE st[3]
                      IN <<<<x, x2, n>>, [k \in DOMAIN x |-> VarOf(x[k], x2[k], n[k], 1)]>>

\* diff_iloc / diff_loc / diff_expanding on the deque of retained batches: returns <<dfs', old>>
RECURSIVE DropRows(_, _)
DropRows(dfs, n) ==      \* remove n rows from the front of the deque; returns <<dfs', decayed batches>>
    IF n <= 0 \/ dfs = <<>> THEN <<dfs, <<>>>>
    ELSE IF Len(Head(dfs)) <= n
    THEN LET r == DropRows(Tail(dfs), n - Len(Head(dfs))) IN <<r[1], <<Head(dfs)>> \o r[2]>>
    ELSE <<<<SubSeq(Head(dfs), n + 1, Len(Head(dfs)))>> \o Tail(dfs), <<SubSeq(Head(dfs), 1, n)>>>>
RECURSIVE TotalLen(_), DropOld(_, _)
TotalLen(dfs) == IF dfs = <<>> THEN 0 ELSE Len(Head(dfs)) + TotalLen(Tail(dfs))
MaxT(dfs) == MaxOf([i \in 1 .. Len(dfs) |-> dfs[i][Len(dfs[i])].t])
DropOld(dfs, mn) ==      \* diff_loc: while dfs[0].index.min() < mn: cut dfs[0].loc[:mn]
    IF dfs = <<>> \/ ~(Head(dfs)[1].t <= mn) THEN <<dfs, <<>>>>
    ELSE LET o == SelectSeq(Head(dfs), LAMBDA r : r.t <= mn)
             rest == SubSeq(Head(dfs), Len(o) + 1, Len(Head(dfs)))
             d2 == IF rest = <<>> THEN Tail(dfs) ELSE <<rest>> \o Tail(dfs)
             r == DropOld(d2, mn)
         IN <<r[1], <<o>> \o r[2]>>
Diff(dfs, new) ==
    LET d1 == IF new # <<>> THEN Append(dfs, new) ELSE dfs IN
    CASE WinKind = "rows" -> IF d1 = <<>> THEN <<d1, <<>>>> ELSE DropRows(d1, TotalLen(d1) - W)
      [] WinKind = "time" -> IF d1 = <<>> THEN <<d1, <<>>>> ELSE DropOld(d1, MaxT(d1) - W)   \* rows with t <= newest - T decay
      [] WinKind = "expanding" -> <<d1, <<>>>>

RECURSIVE FoldOld(_, _, _, _)
FoldOld(a, sr, olds, keyed) ==      \* for o in old: if len(o): state, result = agg.on_old(state, o)
    IF olds = <<>> THEN sr
    ELSE IF Head(olds) = <<>> THEN FoldOld(a, sr, Tail(olds), keyed)
    ELSE FoldOld(a, IF keyed THEN GStep(a, sr[1], Head(olds), -1) ELSE AStep(a, sr[1], Head(olds), -1), Tail(olds), keyed)

\* rolling_accumulator: acc = carried rows
RollStep(a, carry, new) ==
    LET df == carry \o new
        res == RollWhole(a, df)
        keep == IF df = <<>> THEN <<>>
                ELSE IF WinKind = "rows" THEN LastRows(df, W)
                ELSE SelectSeq(df, LAMBDA r : r.t >= Newest(df) - W)       \* df.loc[result.index.max() - window:]
    IN <<keep, SubSeq(res, Len(carry) + 1, Len(res))>>

\* _cumulative_accumulator: state = last cumulative row (option), seeded into the next batch
CumStep(a, st, new) ==
    IF new = <<>> THEN <<st, <<>>>>
    ELSE LET seed == IF st = <<>> THEN <<>> ELSE <<[v |-> st[1], k |-> 0, t |-> 0]>>
             res == CumWhole(a, seed \o new)
             \* the carried row is the last *valid* cumulative value (result.ffill().iloc[-1:]); CarryNaN = the pinned
             \* tree, which carried the last row even if it was NaN and so restarted the run
             valid == SelectSeq(res, LAMBDA q : ~IsNaN(q))
             last == res[Len(res)]
             st2 == IF CarryNaN THEN (IF IsNaN(last) THEN <<NaN>> ELSE <<last[1]>>)
                    ELSE IF valid = <<>> THEN <<NaN>> ELSE <<valid[Len(valid)][1]>>
         IN <<st2, SubSeq(res, Len(seed) + 1, Len(res))>>

\* EWMean.on_new: acc = <<result, old_wt, is_first>> with result a rational; initial(new) = new.iloc[:1]
RECURSIVE EwFold(_, _, _)
EwFold(res, wt, s) ==       \* wt is a rational; old_wt_factor = com / (1 + com)
    IF s = <<>> THEN <<res, wt>>
    ELSE LET w1 == QMul(wt, <<W, 1 + W>>)
             num == QAdd(QMul(w1, res), Q(Head(s)))
             den == QAdd(w1, Q(1))
             r2 == QMul(num, <<den[2], den[1]>>)
         IN EwFold(r2, den, Tail(s))

StepBody(ac, b) ==
    CASE Family = "reduce" ->
            AStep(Agg, IF ac = None THEN AInit(Agg) ELSE ac[1], b, 1)
      [] Family = "groupby" ->
            GStep(Agg, IF ac = None THEN GInit(Agg) ELSE ac[1], b, 1)
      [] Family = "window" ->
            LET a0 == IF ac = None THEN [dfs |-> <<>>, state |-> AInit(Agg)] ELSE ac[1]
                d == Diff(a0.dfs, b)
                sr == FoldOld(Agg, AStep(Agg, a0.state, b, 1), d[2], FALSE)
            IN <<[dfs |-> d[1], state |-> sr[1]], sr[2]>>
      [] Family = "wgroupby" ->
            LET a0 == IF ac = None THEN [dfs |-> <<>>, state |-> GInit(Agg), size |-> GInit("size")] ELSE ac[1]
                d == Diff(a0.dfs, b)
                sr == FoldOld(Agg, GStep(Agg, a0.state, b, 1), d[2], TRUE)
                sz == FoldOld("size", GStep("size", a0.size, b, 1), d[2], TRUE)[1]
                live == {k \in DOMAIN sz : sz[k] # 0}
                Cut(f) == [k \in live \cap DOMAIN f |-> f[k]]
                st2 == IF Agg \in {"sum", "count", "size"} THEN Cut(sr[1])
                       ELSE [i \in DOMAIN sr[1] |-> Cut(sr[1][i])]
            IN <<[dfs |-> d[1], state |-> st2, size |-> Cut(sz)], Cut(sr[2])>>
      [] Family = "rolling" -> RollStep(Agg, IF ac = None THEN <<>> ELSE ac[1], b)
      [] Family = "cumulative" -> CumStep(Agg, IF ac = None THEN <<>> ELSE ac[1], b)
      [] Family = "ewm" ->
            \* window_accumulator over diff_expanding with EWMean: acc = [first, res, wt]
            LET seeded == ac # None /\ ac[1].seeded IN
            IF ~seeded
            THEN IF b = <<>> THEN <<[seeded |-> FALSE, res |-> NaNQ, wt |-> Q(1)], <<>>>>     \* nothing seen yet
                 ELSE LET f == EwFold(Q(b[1].v), Q(1), Tail(Vs(b))) IN <<[seeded |-> TRUE, res |-> f[1], wt |-> f[2]], f[1]>>
            ELSE IF b = <<>> THEN <<ac[1], ac[1].res>>
                 ELSE LET f == EwFold(ac[1].res, ac[1].wt, Vs(b)) IN <<[seeded |-> TRUE, res |-> f[1], wt |-> f[2]], f[1]>>

\* accumulate keeps <<state>> once the first batch has been folded
Step(ac, b) == LET r == StepBody(ac, b) IN <<<<r[1]>>, r[2]>>

\* what pandas computes on everything seen so far
Batch(rows) ==
    CASE Family = "reduce" -> IF Agg = "value_counts" THEN ValueCounts(rows) ELSE Scalar(Agg, rows)
      [] Family = "groupby" -> ByKey(Agg, rows)
      [] Family = "window" -> IF Agg = "value_counts" THEN ValueCounts(WindowOf(rows)) ELSE Scalar(Agg, WindowOf(rows))
      [] Family = "wgroupby" -> ByKey(Agg, WindowOf(rows))
      [] Family = "rolling" -> RollWhole(Agg, rows)
      [] Family = "cumulative" -> CumWhole(Agg, rows)
      [] Family = "ewm" -> EwWhole(rows)

\* equality of results (scalars, keyed results; a missing key counts as 0 for value_counts)
Keyed == Family \in {"groupby", "wgroupby"} \/ Agg = "value_counts"
ResEq(r, e) ==
    IF Family \in {"rolling", "cumulative"} THEN Len(r) = Len(e) /\ \A i \in 1 .. Len(r) : QEq(r[i], e[i])
    ELSE IF ~Keyed THEN QEq(r, e)
    ELSE IF Agg = "value_counts"
    THEN \A x \in DOMAIN r \cup DOMAIN e : QEq(IF x \in DOMAIN r THEN r[x] ELSE Q(0), IF x \in DOMAIN e THEN e[x] ELSE Q(0))
    ELSE DOMAIN r = DOMAIN e /\ \A k \in DOMAIN r : QEq(r[k], e[k])

----------------------------------------------------------------------------
Rows == [v : VDom, k : KDom, t : DtDom]          \* t holds the increment; made absolute in EmitBatch
RowSeqs == UNION {[1 .. n -> Rows] : n \in 0 .. MaxRows}
RECURSIVE Absolute(_, _)
Absolute(b, t0) == IF b = <<>> THEN <<>>
                   ELSE <<[Head(b) EXCEPT !.t = t0 + @]>> \o Absolute(Tail(b), t0 + Head(b).t)
LastT == IF seen = <<>> THEN 0 ELSE seen[Len(seen)].t

Init == /\ acc = None /\ seen = <<>> /\ out = <<>> /\ outs = <<>> /\ nb = 0
        /\ accB = None /\ outB = <<>> /\ cut = FALSE

EmitBatch(b0) ==
    LET b == Absolute(b0, LastT)
        s == Step(acc, b)
    IN /\ nb < MaxBatches
       /\ nb' = nb + 1
       /\ acc' = s[1] /\ out' = s[2]
       /\ seen' = seen \o b
       /\ outs' = IF Family \in {"rolling", "cumulative"} THEN outs \o s[2]
                  ELSE IF Family = "ewm" THEN (IF b = <<>> THEN outs ELSE Append(outs, s[2])) ELSE outs
       \* C12: a second pipeline, seeded at the cut with the exposed state, is stepped in lock step
       /\ IF cut THEN LET sB == Step(accB, b) IN accB' = sB[1] /\ outB' = sB[2]
          ELSE UNCHANGED <<accB, outB>>
       /\ UNCHANGED cut

\* with_state=True exposes acc; a fresh pipeline is started with start=acc
CutHere == /\ ~cut /\ nb > 0 /\ cut' = TRUE /\ accB' = acc /\ outB' = out
           /\ UNCHANGED <<acc, seen, out, outs, nb>>

Next == (\E b \in RowSeqs : EmitBatch(b)) \/ CutHere
Spec == Init /\ [][Next]_vars

----------------------------------------------------------------------------
\* pandas' one-pass ewm (a list with one value per row) against the closed form
ResEq2(j, rows) == Len(j) = Len(rows) /\ \A i \in 1 .. Len(j) : QEq(j[i], EwWhole(rows)[i])

\* C06 / C07: after every batch the emitted value is what pandas computes on everything seen so far
\* (respectively on the rows inside the window), whenever at least one row has been seen
Matches == (nb > 0 /\ seen # <<>> /\ Family \in {"reduce", "groupby", "window", "wgroupby"}) => ResEq(out, Batch(seen))
\* C11: the results emitted batch by batch, taken together, are what pandas computes in one pass
Concatenated == Family \in {"rolling", "cumulative"} => ResEq(outs, Batch(seen))
EwmLast == (Family = "ewm" /\ seen # <<>> /\ nb > 0 /\ out # <<>>) => QEq(out, EwWhole(seen)[Len(seen)])
\* C12: the resumed pipeline produces what the uninterrupted one produces
Resumed == cut => (accB = acc /\ outB = out)
=============================================================================
