----------------------------- MODULE DFAggTrace -----------------------------
(* Trace validation of real streaming-dataframe pipelines (real pandas) against DFAgg: after every batch the    *)
(* value emitted by the real aggregation, the value pandas computes on the concatenation, and the specification's *)
(* Step / Batch must all agree; in restart scenarios the resumed pipeline is validated as well.                  *)
EXTENDS DFAgg, Json, IOUtils, TLCExt

Traces == JsonDeserialize(IOEnv.TRACE_FILE)
VARIABLES tid, l
tvars == <<vars, tid, l>>
TR == Traces[tid]
T == TR.steps
Max(a, b) == IF a > b THEN a ELSE b

Row(j) == [v |-> j[1], k |-> j[2], t |-> j[3]]
RowsOf(js) == [i \in 1 .. Len(js) |-> Row(js[i])]
\* map_partitions in front of the aggregation: a filter that can empty a batch / an assignment
PreOf(rows) == IF TR.pre = "pos" THEN SelectSeq(rows, LAMBDA r : r.v # NaN /\ r.v > 0)
               ELSE IF TR.pre = "setinc" THEN [i \in 1 .. Len(rows) |-> IF rows[i].v = NaN THEN rows[i] ELSE [rows[i] EXCEPT !.v = @ + 1]]
               ELSE rows

JFun(j) == [k \in {j[i][1] : i \in 1 .. Len(j)} |-> (j[CHOOSE i \in 1 .. Len(j) : j[i][1] = k])[2]]
\* logged (JSON) result against a specification result
JEq(r, j) ==
    IF Family \in {"rolling", "cumulative"} THEN ResEq(r, j)
    ELSE IF Keyed THEN ResEq(r, JFun(j))
    ELSE IF Family = "ewm" THEN (IF r = <<>> THEN j = <<>> ELSE j # <<>> /\ QEq(r, j))
    ELSE QEq(r, j)

TraceInit == /\ tid \in 1 .. Len(Traces) /\ l = 1 /\ Init /\ TLCSet(tid, 1)

\* a batch on which the user's aggregation raised: the exception reached the emitter, nothing was emitted, the state is what it
\* was (so every later step is compared with a run that never saw the batch)
Rejected(ev) == ev.raised /\ ~ev.emitted_on_failure /\ UNCHANGED vars

Accepted(ev) ==
    LET raw == RowsOf(ev.raw)
        b == PreOf(raw)
        s == Step(acc, b)
    IN /\ "error" \notin DOMAIN ev
       /\ ("mid" \in DOMAIN ev) => RowsOf(ev.mid) = b                      \* C06: per-batch expressions
       /\ nb' = nb + 1 /\ acc' = s[1] /\ out' = s[2] /\ seen' = seen \o b
       /\ outs' = IF Family \in {"rolling", "cumulative"} THEN outs \o s[2] ELSE outs
       /\ JEq(s[2], ev.out)                                                \* the real aggregation emitted the specified value
       /\ (seen' # <<>> /\ Family \notin {"ewm"}) =>                       \* pandas on everything seen agrees with Batch()
             (IF Family \in {"rolling", "cumulative"} THEN ResEq(Batch(seen'), ev.pandas) ELSE JEq(Batch(seen'), ev.pandas))
       /\ (seen' # <<>> /\ Family = "ewm") => ResEq2(ev.pandas, seen')
       /\ IF cut THEN LET sB == Step(accB, b) IN accB' = sB[1] /\ outB' = sB[2] /\ JEq(sB[2], ev.outB)
          ELSE UNCHANGED <<accB, outB>>
       /\ UNCHANGED cut

Event(ev) == IF "fails" \in DOMAIN ev THEN Rejected(ev) ELSE Accepted(ev)

TraceNext ==
    \/ /\ l <= Len(T) /\ ~(TR.cut > 0 /\ nb = TR.cut /\ ~cut)
       /\ Event(T[l])
       /\ l' = l + 1 /\ TLCSet(tid, Max(TLCGet(tid), l + 1)) /\ UNCHANGED tid
    \/ /\ l <= Len(T) /\ TR.cut > 0 /\ nb = TR.cut /\ CutHere /\ UNCHANGED <<tid, l>>

TraceSpec == TraceInit /\ [][TraceNext]_tvars
TraceInv == Matches /\ Concatenated /\ EwmLast /\ Resumed
Report == \A i \in 1 .. Len(Traces) : PrintT(<<"REACHED", Traces[i].id, TLCGet(i), Len(Traces[i].steps) + 1>>)
EmptySet == {}
=============================================================================
