------------------------------ MODULE DaskFlow ------------------------------
(***************************************************************************)
(* A pipeline segment run on a Dask cluster: streamz/dask.py               *)
(*     source.scatter() -> map / starmap / accumulate ... -> gather() -> sink *)
(* scatter.update and gather.update are per-call coroutines:               *)
(*   scatter.update(x): retain; future = await client.scatter([x]);        *)
(*                      await self._emit(future); release                  *)
(*   map.update(fut):   submit(func, fut) -> a new future, passed on at once*)
(*   gather.update(f):  retain; result = await client.gather(f);           *)
(*                      await self._emit(result); release                  *)
(* The cluster finishes tasks in any order (TaskFinish).  Nothing orders   *)
(* two gather.update calls that are in flight at the same time, so a       *)
(* producer that does not await its emits (Await = FALSE) can see results  *)
(* delivered in completion order (known finding F18); a producer that      *)
(* awaits every emit -- all streamz sources do -- or a buffer() in front   *)
(* of gather (Buffered) serialises the calls.                              *)
(***************************************************************************)
EXTENDS Integers, Sequences, FiniteSets, TLC

CONSTANTS NE, Await, Buffered, SyncCons

VARIABLES called, st, taskDone, delivered, busy, emitDone, rc, fired
vars == <<called, st, taskDone, delivered, busy, emitDone, rc, fired>>
Elems == 1 .. NE

Init == /\ called = 0 /\ st = [e \in Elems |-> "none"] /\ taskDone = [e \in Elems |-> FALSE]
        /\ delivered = <<>> /\ busy = {} /\ emitDone = [e \in Elems |-> FALSE]
        /\ rc = [e \in Elems |-> 0] /\ fired = <<>>

EmitCall(e) ==
    /\ e = called + 1 /\ e <= NE
    /\ Await => \A f \in 1 .. called : emitDone[f]
    /\ called' = e /\ st' = [st EXCEPT ![e] = "scattering"]
    /\ rc' = [rc EXCEPT ![e] = @ + 1]                          \* scatter.update retains
    /\ UNCHANGED <<taskDone, delivered, busy, emitDone, fired>>

\* client.scatter finished: the future travels through map (task submitted) into gather.update, which retains and waits
ScatterDone(e) ==
    /\ st[e] = "scattering"
    /\ Buffered => \A f \in 1 .. (e - 1) : st[f] \in {"done"}     \* buffer.cb hands on one element at a time
    /\ st' = [st EXCEPT ![e] = "computing"]
    /\ rc' = [rc EXCEPT ![e] = @ + 1]                          \* gather.update retains
    /\ UNCHANGED <<called, taskDone, delivered, busy, emitDone, fired>>

\* the cluster finishes the task(s) of element e -- in any order
TaskFinish(e) ==
    /\ st[e] \in {"scattering", "computing"} /\ ~taskDone[e]
    /\ taskDone' = [taskDone EXCEPT ![e] = TRUE]
    /\ UNCHANGED <<called, st, delivered, busy, emitDone, rc, fired>>

\* client.gather returned: the result is emitted to the sink
GatherDone(e) ==
    /\ st[e] = "computing" /\ taskDone[e]
    /\ delivered' = Append(delivered, e)
    /\ busy' = IF SyncCons THEN busy ELSE busy \cup {e}
    /\ st' = [st EXCEPT ![e] = "delivering"]
    /\ UNCHANGED <<called, taskDone, emitDone, rc, fired>>

ConsumerDone(e) == /\ e \in busy /\ busy' = busy \ {e}
                   /\ UNCHANGED <<called, st, taskDone, delivered, emitDone, rc, fired>>

\* gather releases, its awaitable completes, scatter releases
Release(e) ==
    /\ st[e] = "delivering" /\ e \notin busy
    /\ st' = [st EXCEPT ![e] = "done"]
    /\ rc' = [rc EXCEPT ![e] = @ - 2]
    /\ fired' = IF rc[e] - 2 <= 0 THEN Append(fired, e) ELSE fired
    /\ UNCHANGED <<called, taskDone, delivered, busy, emitDone>>

EmitDone(e) == /\ st[e] = "done" /\ ~emitDone[e] /\ emitDone' = [emitDone EXCEPT ![e] = TRUE]
               /\ UNCHANGED <<called, st, taskDone, delivered, busy, rc, fired>>

Next == \E e \in Elems : EmitCall(e) \/ ScatterDone(e) \/ TaskFinish(e) \/ GatherDone(e) \/ ConsumerDone(e) \/ Release(e) \/ EmitDone(e)
Spec == Init /\ [][Next]_vars
FairSpec == Spec /\ \A e \in Elems : WF_vars(EmitCall(e)) /\ WF_vars(ScatterDone(e)) /\ WF_vars(TaskFinish(e)) /\ WF_vars(GatherDone(e))
                                     /\ WF_vars(ConsumerDone(e)) /\ WF_vars(Release(e)) /\ WF_vars(EmitDone(e))

----------------------------------------------------------------------------
\* C20: the same results as the local pipeline: each element exactly once ...
ExactlyOnce == \A i, j \in 1 .. Len(delivered) : i # j => delivered[i] # delivered[j]
Quiescent == \A e \in 1 .. called : st[e] = "done"
Lossless == Quiescent => Len(delivered) = called
\* ... and in the same order, whatever order the cluster finishes tasks in
SameOrder == \A i, j \in 1 .. Len(delivered) : i < j => delivered[i] < delivered[j]
AllDelivered == <>(Len(delivered) = NE)
\* reference counters balanced as in the local pipeline
CbSafe == \A i \in 1 .. Len(fired) : st[fired[i]] = "done"
RcBalance == /\ \A e \in Elems : rc[e] = (CASE st[e] = "scattering" -> 1 [] st[e] \in {"computing", "delivering"} -> 2 [] OTHER -> 0)
             /\ \A e \in Elems : st[e] = "done" => \E i \in 1 .. Len(fired) : fired[i] = e
             /\ \A e \in Elems : Cardinality({i \in 1 .. Len(fired) : fired[i] = e}) <= 1
=============================================================================
