------------------------------ MODULE DaskFlow ------------------------------
(***************************************************************************)
(* A pipeline segment run on a Dask cluster: streamz/dask.py               *)
(*     source.scatter() -> map / starmap / accumulate ... -> gather() -> sink *)
(* scatter.update and gather.update are per-call coroutines:               *)
(*   scatter.update(x): retain; future = await client.scatter([x]);        *)
(*                      await self._emit(future); release                  *)
(*   map.update(fut):   submit(func, fut) -> a new future, passed on at once*)
(*   gather.update(f):  retain; result = await client.gather(f);           *)
(*                      await self._emit(result); release                  *)
(*                      [wait for the previous gather.update's turn]       *)
(*                      await self._emit(result); pass the turn; release   *)
(* The cluster finishes tasks in any order (TaskFinish).  gather passes    *)
(* results on in the order in which its update was called (Turn; the       *)
(* pinned tree had no such order: Turn = FALSE, finding F22).  Nothing     *)
(* orders two scatter.update calls that are in flight at the same time,    *)
(* so a producer that does not await its emits (Await = FALSE) can still   *)
(* see results in another order than it emitted (F18); a     *)
(* producer that awaits every emit -- all streamz sources do -- or a       *)
(* buffer() in front of gather (Buffered) serialises the calls.            *)
(***************************************************************************)
EXTENDS Integers, Sequences, FiniteSets, TLC

CONSTANTS NE, Await, Buffered, SyncCons, Turn,
          Faults,          \* TRUE: a task may raise on the cluster
          EarlyTurn        \* TRUE: a failed call passes its turn on without waiting for the calls before it

VARIABLES called, st, taskDone, delivered, busy, emitDone, rc, fired,
          q,     \* Buffered: the buffer's queue between map and gather
          gq,    \* the elements in the order in which gather.update was called for them
          passed, \* the elements whose gather.update has passed the turn on (its emit to the sink has completed)
          taskFailed \* the elements whose task raised
vars == <<called, st, taskDone, delivered, busy, emitDone, rc, fired, q, gq, passed, taskFailed>>
Elems == 1 .. NE

Init == /\ called = 0 /\ st = [e \in Elems |-> "none"] /\ taskDone = [e \in Elems |-> FALSE]
        /\ delivered = <<>> /\ busy = {} /\ emitDone = [e \in Elems |-> FALSE]
        /\ rc = [e \in Elems |-> 0] /\ fired = <<>> /\ q = <<>> /\ gq = <<>> /\ passed = {} /\ taskFailed = {}

EmitCall(e) ==
    /\ e = called + 1 /\ e <= NE
    /\ Await => \A f \in 1 .. called : emitDone[f]
    /\ called' = e /\ st' = [st EXCEPT ![e] = "scattering"]
    /\ rc' = [rc EXCEPT ![e] = @ + 1]                          \* scatter.update retains
    /\ UNCHANGED <<taskDone, delivered, busy, emitDone, fired, q, gq, passed, taskFailed>>

\* client.scatter finished: the future travels through map (task submitted) into gather.update, which retains and waits
ScatterDone(e) ==
    /\ st[e] = "scattering"
    /\ IF Buffered
       THEN \* the future is queued in the buffer; scatter's own reference is handed over to the buffer
            /\ st' = [st EXCEPT ![e] = "queued"] /\ q' = Append(q, e) /\ rc' = rc /\ gq' = gq
       ELSE /\ st' = [st EXCEPT ![e] = "computing"] /\ q' = q /\ gq' = Append(gq, e)
            /\ rc' = [rc EXCEPT ![e] = @ + 1]                 \* gather.update retains
    /\ UNCHANGED <<called, taskDone, delivered, busy, emitDone, fired, passed, taskFailed>>

\* buffer.cb hands the head of its queue to gather.update and waits for it before taking the next one
HandOver(e) ==
    /\ Buffered /\ q # <<>> /\ Head(q) = e
    /\ \A f \in Elems : st[f] \notin {"computing", "delivering"}
    /\ q' = Tail(q) /\ st' = [st EXCEPT ![e] = "computing"] /\ gq' = Append(gq, e)
    /\ rc' = [rc EXCEPT ![e] = @ + 1]
    /\ UNCHANGED <<called, taskDone, delivered, busy, emitDone, fired, passed, taskFailed>>

\* the cluster finishes the task(s) of element e -- in any order
TaskFinish(e) ==
    /\ st[e] \in {"scattering", "queued", "computing"} /\ ~taskDone[e] /\ e \notin taskFailed
    /\ taskDone' = [taskDone EXCEPT ![e] = TRUE]
    /\ UNCHANGED <<called, st, delivered, busy, emitDone, rc, fired, q, gq, passed, taskFailed>>

\* every call waits for the turn of the call made just before it (which has itself waited for its predecessor)
PrevCall(e) == {gq[i] : i \in {i \in 1 .. Len(gq) : i + 1 <= Len(gq) /\ gq[i + 1] = e}}

\* the task of element e raises on the cluster
TaskFail(e) ==
    /\ Faults /\ ~Buffered /\ st[e] \in {"scattering", "computing"} /\ ~taskDone[e] /\ e \notin taskFailed
    /\ taskFailed' = taskFailed \cup {e}
    /\ UNCHANGED <<called, st, taskDone, delivered, busy, emitDone, rc, fired, q, gq, passed>>

\* client.gather raises in gather.update: nothing is emitted, the turn is passed on (in order), the exception travels
\* back through scatter.update to the emitter; neither gather nor scatter releases: the element is never reported done
GatherFail(e) ==
    /\ st[e] = "computing" /\ e \in taskFailed
    /\ (Turn /\ ~EarlyTurn) => \A f \in PrevCall(e) : f \in passed
    /\ st' = [st EXCEPT ![e] = "failed"] /\ passed' = passed \cup {e}
    /\ UNCHANGED <<called, taskDone, delivered, busy, emitDone, rc, fired, q, gq, taskFailed>>

EmitRaised(e) == /\ st[e] = "failed" /\ ~emitDone[e] /\ emitDone' = [emitDone EXCEPT ![e] = TRUE]
                 /\ UNCHANGED <<called, st, taskDone, delivered, busy, rc, fired, q, gq, passed, taskFailed>>

\* client.gather returned and every earlier call has passed its turn: the result is emitted to the sink
GatherDone(e) ==
    /\ st[e] = "computing" /\ taskDone[e]
    /\ Turn => \A f \in PrevCall(e) : f \in passed
    /\ delivered' = Append(delivered, e)
    /\ busy' = IF SyncCons THEN busy ELSE busy \cup {e}
    /\ st' = [st EXCEPT ![e] = "delivering"]
    /\ UNCHANGED <<called, taskDone, emitDone, rc, fired, q, gq, passed, taskFailed>>

ConsumerDone(e) == /\ e \in busy /\ busy' = busy \ {e}
                   /\ UNCHANGED <<called, st, taskDone, delivered, emitDone, rc, fired, q, gq, passed, taskFailed>>

\* the sink has finished with the result: gather passes the turn on (and releases; counted in Release) ...
PassTurn(e) ==
    /\ st[e] = "delivering" /\ e \notin busy /\ e \notin passed
    /\ passed' = passed \cup {e}
    /\ UNCHANGED <<called, st, taskDone, delivered, busy, emitDone, rc, fired, q, gq, taskFailed>>

\* ... its awaitable completes, scatter releases
Release(e) ==
    /\ st[e] = "delivering" /\ e \notin busy
    /\ passed' = passed \cup {e}
    /\ st' = [st EXCEPT ![e] = "done"]
    /\ rc' = [rc EXCEPT ![e] = @ - 2]
    /\ fired' = IF rc[e] - 2 <= 0 THEN Append(fired, e) ELSE fired
    /\ UNCHANGED <<called, taskDone, delivered, busy, emitDone, q, gq, taskFailed>>

\* the producer's awaitable: scatter.update returns when everything up to the next buffering node has taken the element
EmitDone(e) == /\ (IF Buffered THEN st[e] \notin {"none", "scattering"} ELSE st[e] = "done")
               /\ ~emitDone[e] /\ emitDone' = [emitDone EXCEPT ![e] = TRUE]
               /\ UNCHANGED <<called, st, taskDone, delivered, busy, rc, fired, q, gq, passed, taskFailed>>

Next == \E e \in Elems : EmitCall(e) \/ ScatterDone(e) \/ HandOver(e) \/ TaskFinish(e) \/ GatherDone(e) \/ ConsumerDone(e) \/ PassTurn(e) \/ Release(e) \/ EmitDone(e)
                          \/ TaskFail(e) \/ GatherFail(e) \/ EmitRaised(e)
Spec == Init /\ [][Next]_vars
FairSpec == Spec /\ \A e \in Elems : WF_vars(EmitCall(e)) /\ WF_vars(ScatterDone(e)) /\ WF_vars(HandOver(e)) /\ WF_vars(TaskFinish(e)) /\ WF_vars(GatherDone(e))
                                     /\ WF_vars(ConsumerDone(e)) /\ WF_vars(PassTurn(e)) /\ WF_vars(Release(e)) /\ WF_vars(EmitDone(e))
                                     /\ WF_vars(GatherFail(e)) /\ WF_vars(EmitRaised(e))

----------------------------------------------------------------------------
\* C20: the same results as the local pipeline: each element exactly once ...
ExactlyOnce == \A i, j \in 1 .. Len(delivered) : i # j => delivered[i] # delivered[j]
Failed == {e \in Elems : st[e] = "failed"}
Quiescent == \A e \in 1 .. called : st[e] \in {"done", "failed"}
Lossless == Quiescent => Len(delivered) + Cardinality(Failed) = called
\* ... and in the same order, whatever order the cluster finishes tasks in
\* (guaranteed for producers that await their emits; with fire-and-forget producers not even the scatter
\* calls are ordered)
SameOrder == \A i, j \in 1 .. Len(delivered) : i < j => delivered[i] < delivered[j]
\* whatever the producer does, gather passes results on in the order in which the futures reached it
\* (calls whose task failed deliver nothing; the others keep their order)
CallOrder == LET ok == SelectSeq(gq, LAMBDA e : e \notin taskFailed)
             IN \A i \in 1 .. Len(delivered) : i <= Len(ok) /\ delivered[i] = ok[i]
AllDelivered == <>(Len(delivered) + Cardinality(Failed) = NE)
\* reference counters balanced as in the local pipeline
CbSafe == \A i \in 1 .. Len(fired) : st[fired[i]] = "done"
RcBalance == /\ \A e \in Elems : rc[e] = (CASE st[e] \in {"scattering", "queued"} -> 1 [] st[e] \in {"computing", "delivering", "failed"} -> 2 [] OTHER -> 0)
             /\ \A e \in Elems : st[e] = "done" => \E i \in 1 .. Len(fired) : fired[i] = e
             /\ \A e \in Elems : Cardinality({i \in 1 .. Len(fired) : fired[i] = e}) <= 1
=============================================================================
