--------------------------- MODULE DaskFlowTrace ---------------------------
(* Trace validation of real scatter ... gather pipelines on an in-process dask cluster against DaskFlow.  *)
(* PassTurn and GatherFail (and, in front of a buffer, ScatterDone) are silent; the call of gather.update is logged.  A loss of emission order is reported per occurrence instead of      *)
(* stopping the run (the engine demands it of producers that await their emits).                        *)
EXTENDS DaskFlow, Json, IOUtils, TLCExt
Traces == JsonDeserialize(IOEnv.TRACE_FILE)
VARIABLES tid, l
tvars == <<vars, tid, l>>
T == Traces[tid].ev
Same == UNCHANGED vars
Max(a, b) == IF a > b THEN a ELSE b
TraceInit == /\ tid \in 1 .. Len(Traces) /\ l = 1 /\ Init /\ TLCSet(tid, 1)
EventBody(ev) ==
    CASE ev.ev = "EmitCall" -> EmitCall(ev.e)
      [] ev.ev = "GatherCall" -> IF Buffered THEN HandOver(ev.e) ELSE ScatterDone(ev.e)
      [] ev.ev = "TaskFinish" -> TaskFinish(ev.e)
      [] ev.ev = "Deliver" -> GatherDone(ev.e)
      [] ev.ev = "ConsumerDone" -> ConsumerDone(ev.e)
      [] ev.ev = "Release" -> Release(ev.e) /\ (ev.fired <=> Len(fired') > Len(fired))
      [] ev.ev = "EmitDone" -> EmitDone(ev.e)
      [] ev.ev = "TaskFail" -> TaskFail(ev.e)
      [] ev.ev = "EmitRaised" -> EmitRaised(ev.e)
      [] ev.ev = "End" -> Quiescent /\ Len(delivered) + Cardinality(Failed) = called /\ Same
      [] OTHER -> FALSE
Event(ev) ==
    /\ ("e" \in DOMAIN ev) => ev.e \in Elems            \* a value that is not one of the local pipeline's results maps to -1
    /\ EventBody(ev)
TraceNext ==
    \/ /\ l <= Len(T) /\ Event(T[l])
       /\ l' = l + 1 /\ TLCSet(tid, Max(TLCGet(tid), l + 1)) /\ UNCHANGED tid
       /\ ((SameOrder /\ ~SameOrder') => PrintT(<<"UNSAFE", Traces[tid].id, l>>))
    \/ /\ l <= Len(T) /\ (\E e \in Elems : (Buffered /\ ScatterDone(e)) \/ PassTurn(e) \/ GatherFail(e)) /\ UNCHANGED <<tid, l>>
TraceSpec == TraceInit /\ [][TraceNext]_tvars
TraceInv == ExactlyOnce /\ Lossless /\ CallOrder /\ CbSafe /\ RcBalance
Report == \A i \in 1 .. Len(Traces) : PrintT(<<"REACHED", Traces[i].id, TLCGet(i), Len(Traces[i].ev) + 1>>)
=============================================================================
