----------------------------- MODULE Filenames -----------------------------
(***************************************************************************)
(* streamz.sources.filenames (sources.py:173-209): one polling cycle       *)
(*     new = set(glob(path)) - seen                                        *)
(*     for fn in sorted(new): seen.add(fn); await emit(fn)                 *)
(*     await sleep(poll_interval)                                          *)
(* Files (small integers, ordered like their names) are created in any     *)
(* order between polls; some of them do not match the pattern.             *)
(***************************************************************************)
EXTENDS Integers, Sequences, FiniteSets, TLC

CONSTANTS Files, Matching

VARIABLES dir, seen, pending, emitted, polls
vars == <<dir, seen, pending, emitted, polls>>

Init == dir = {} /\ seen = {} /\ pending = <<>> /\ emitted = <<>> /\ polls = <<>>

Create(f) == /\ f \in Files \ dir /\ dir' = dir \cup {f} /\ UNCHANGED <<seen, pending, emitted, polls>>

RECURSIVE Sorted(_)
Sorted(S) == IF S = {} THEN <<>>
             ELSE LET m == CHOOSE x \in S : \A y \in S : x <= y IN <<m>> \o Sorted(S \ {m})

Poll == /\ pending = <<>>
        /\ LET new == (dir \cap Matching) \ seen IN
           /\ new # {}                       \* a poll that finds nothing changes nothing
           /\ pending' = Sorted(new)
           /\ polls' = Append(polls, Len(emitted))
        /\ UNCHANGED <<dir, seen, emitted>>

EmitOne == /\ pending # <<>>
           /\ seen' = seen \cup {Head(pending)}
           /\ emitted' = Append(emitted, Head(pending)) /\ pending' = Tail(pending)
           /\ UNCHANGED <<dir, polls>>

Next == (\E f \in Files : Create(f)) \/ Poll \/ EmitOne
Spec == Init /\ [][Next]_vars

----------------------------------------------------------------------------
Range(s) == {s[i] : i \in 1 .. Len(s)}
\* C17: every matching path exactly once, nothing else
ExactlyOnce == /\ \A i, j \in 1 .. Len(emitted) : i # j => emitted[i] # emitted[j]
               /\ Range(emitted) \subseteq (dir \cap Matching)
Complete == pending = <<>> /\ polls # <<>> =>
               \A f \in dir \cap Matching : f \in Range(emitted) \/ f \notin seen
\* sorted within each poll
SortedPerPoll == \A p \in 1 .. Len(polls) :
                    LET lo == polls[p] + 1
                        hi == IF p = Len(polls) THEN Len(emitted) ELSE polls[p + 1]
                    IN \A i, j \in lo .. hi : i < j => emitted[i] < emitted[j]
=============================================================================
