-------------------------- MODULE FilenamesTrace --------------------------
EXTENDS Filenames, Json, IOUtils, TLCExt
Traces == JsonDeserialize(IOEnv.TRACE_FILE)
VARIABLES tid, l
tvars == <<vars, tid, l>>
T == Traces[tid].ev
Same == UNCHANGED vars
Max(a, b) == IF a > b THEN a ELSE b
TraceInit == /\ tid \in 1 .. Len(Traces) /\ l = 1 /\ Init /\ TLCSet(tid, 1)
Event(ev) ==
    CASE ev.ev = "Create" -> Create(ev.f)
      [] ev.ev = "Emit" -> EmitOne /\ Head(pending) = ev.f
      [] ev.ev = "End" -> pending = <<>> /\ (dir \cap Matching) \subseteq seen /\ Same
      [] OTHER -> FALSE
TraceNext ==
    \/ /\ l <= Len(T) /\ Event(T[l])
       /\ l' = l + 1 /\ TLCSet(tid, Max(TLCGet(tid), l + 1)) /\ UNCHANGED tid
    \/ /\ l <= Len(T) /\ Poll /\ (dir \cap Matching) \ seen # {} /\ UNCHANGED <<tid, l>>
TraceSpec == TraceInit /\ [][TraceNext]_tvars
TraceInv == ExactlyOnce /\ SortedPerPoll
Report == \A i \in 1 .. Len(Traces) : PrintT(<<"REACHED", Traces[i].id, TLCGet(i), Len(Traces[i].ev) + 1>>)
FilesDef == 1 .. 6
MatchingDef == {1, 2, 3, 4}
=============================================================================
