---------------------------- MODULE KafkaBatched ----------------------------
(***************************************************************************)
(* streamz.sources.FromKafkaBatched (sources.py:483-603) against a broker. *)
(*                                                                         *)
(* Broker: per partition a log of hw[p] messages (offsets 0 .. hw[p]-1),   *)
(* and per consumer group the committed offset (NoOffset = -1001).         *)
(* Source incarnation (lost at a crash): positions[p], the number of       *)
(* partitions it knows, whether the first poll cycle is still to come      *)
(* (auto.offset.reset = latest is honoured in the first cycle only).       *)
(*                                                                         *)
(*  start():     consumer created; poll_kafka scheduled                    *)
(*  poll_kafka:  positions := committed offsets (NoOffset where none)      *)
(*    each cycle (no suspension point inside, hence one atomic action):    *)
(*      refresh_partitions: new partitions get position NoOffset           *)
(*      for p: low, high = watermarks                                      *)
(*             if first cycle, reset = latest, position = NoOffset:        *)
(*                 position := high                                        *)
(*             lowest = max(position, low); high = min(high, lowest + max) *)
(*             if high > lowest: schedule batch (p, lowest, high-1);       *)
(*                               position := high                          *)
(*      then every scheduled batch is emitted by its own callback with a   *)
(*      RefCounter whose callback commits offset hi+1                      *)
(* A batch is "processed" when its consumer released the reference; the    *)
(* commit callback is a separate loop callback.  Crash loses everything    *)
(* but the broker state.                                                   *)
(***************************************************************************)
EXTENDS Integers, Sequences, FiniteSets, TLC

CONSTANTS NP0,        \* partitions at the beginning
          MaxParts,   \* partitions can be added up to this number
          MaxMsgs,    \* messages per partition
          MaxBatch,   \* max_batch_size
          Latest,     \* auto.offset.reset = latest (else earliest)
          Refresh,    \* refresh_partitions
          MaxCrashes,
          InOrder,    \* proviso: batches of a partition complete in order
          Faults      \* TRUE: the pipeline may raise while a batch is pushed through it

NoOffset == -1001
Parts == 0 .. (MaxParts - 1)

VARIABLES hw, nparts, committed,                 \* broker
          alive, positions, known, first,        \* source incarnation
          fl,                                    \* batches in flight: [p, lo, hi, st], st \in "scheduled" "emitted" "processed"
          emitted,                               \* history of this incarnation: <<p, lo, hi>> in emission order
          seed,                                  \* where this incarnation must start each partition: the committed offset read at start,
                                                 \* else the reset position resolved in the cycle that first sees the partition
          origin,                                \* the position from which the group is owed every message of a partition: the first position it ever
                                                 \* had there, moved forward whenever an incarnation without committed offset resets to "latest"
          processed,                             \* set of <<p, offset>> ever completely processed (any incarnation)
          lost,                                  \* messages that were committed past although never processed (checked at crash)
          crashes, inc

vars == <<hw, nparts, committed, alive, positions, known, first, fl, emitted, seed, origin, processed, lost, crashes, inc>>

Init ==
    /\ hw = [p \in Parts |-> 0] /\ nparts = NP0 /\ committed = [p \in Parts |-> NoOffset]
    /\ alive = FALSE /\ positions = [p \in Parts |-> 0] /\ known = 0 /\ first = TRUE
    /\ fl = <<>> /\ emitted = <<>> /\ seed = [p \in Parts |-> NoOffset] /\ origin = [p \in Parts |-> NoOffset]
    /\ processed = {} /\ lost = {}
    /\ crashes = 0 /\ inc = 0

Produce(p) == /\ p < nparts /\ hw[p] < MaxMsgs /\ hw' = [hw EXCEPT ![p] = @ + 1]
              /\ UNCHANGED <<nparts, committed, alive, positions, known, first, fl, emitted, seed, origin, processed, lost, crashes, inc>>
AddPartition == /\ nparts < MaxParts /\ nparts' = nparts + 1
                /\ UNCHANGED <<hw, committed, alive, positions, known, first, fl, emitted, seed, origin, processed, lost, crashes, inc>>

\* start() + the beginning of poll_kafka: read the committed offsets of the partitions that exist now
Start ==
    /\ ~alive /\ alive' = TRUE /\ inc' = inc + 1
    /\ known' = nparts
    /\ positions' = [p \in Parts |-> IF p < nparts THEN committed[p] ELSE 0]
    /\ first' = TRUE /\ fl' = <<>> /\ emitted' = <<>>
    /\ seed' = [p \in Parts |-> IF p < nparts THEN committed[p] ELSE NoOffset]
    /\ UNCHANGED <<hw, nparts, committed, origin, processed, lost, crashes>>

Max2(a, b) == IF a > b THEN a ELSE b
Min2(a, b) == IF a < b THEN a ELSE b

\* one poll cycle over the known partitions, in partition order
RECURSIVE Cycle(_, _, _, _)
Cycle(p, kn, pos, acc) ==       \* returns <<positions, new batches, seeds>>
    IF p >= kn THEN <<pos, acc>>
    ELSE LET cur0 == pos[p]
             cur == IF first /\ Latest /\ cur0 = NoOffset THEN hw[p] ELSE cur0
             lowest == Max2(cur, 0)
             high == Min2(hw[p], lowest + MaxBatch)
         IN IF high > lowest
            THEN Cycle(p + 1, kn, [pos EXCEPT ![p] = high], Append(acc, [p |-> p, lo |-> lowest, hi |-> high - 1, st |-> "scheduled"]))
            ELSE Cycle(p + 1, kn, [pos EXCEPT ![p] = cur], acc)

PollCycle ==
    /\ alive
    /\ LET kn == IF Refresh THEN nparts ELSE known
           pos0 == [p \in Parts |-> IF p >= known /\ p < kn THEN NoOffset ELSE positions[p]]
           r == Cycle(0, kn, pos0, <<>>)
       IN /\ known' = kn
          /\ positions' = r[1]
          /\ fl' = fl \o r[2]
          \* the reset position of a partition without committed offset is fixed by the cycle that first sees it
          /\ seed' = [p \in Parts |-> IF p < kn /\ seed[p] = NoOffset
                                      THEN (IF first /\ Latest /\ pos0[p] = NoOffset THEN hw[p] ELSE 0) ELSE seed[p]]
          \* (an incarnation that finds no committed offset applies the reset policy again: with "latest" whatever was
          \* produced before this first cycle is skipped by configuration, in this incarnation as in the first one)
          /\ origin' = [p \in Parts |-> IF p < kn /\ pos0[p] = NoOffset /\ first /\ Latest THEN hw[p]
                                        ELSE IF p < kn /\ origin[p] = NoOffset
                                        THEN (IF pos0[p] # NoOffset THEN pos0[p] ELSE 0) ELSE origin[p]]
    /\ first' = FALSE
    /\ UNCHANGED <<hw, nparts, committed, alive, emitted, processed, lost, crashes, inc>>

\* the add_callback-ed checkpoint_emit of the oldest scheduled batch runs
EmitBatch(i) ==
    /\ alive /\ i \in 1 .. Len(fl) /\ fl[i].st = "scheduled"
    /\ \A j \in 1 .. (i - 1) : fl[j].st # "scheduled"
    /\ fl' = [fl EXCEPT ![i].st = "emitted"]
    /\ emitted' = Append(emitted, <<fl[i].p, fl[i].lo, fl[i].hi>>)
    /\ UNCHANGED <<hw, nparts, committed, alive, positions, known, first, seed, origin, processed, lost, crashes, inc>>

\* the batch is emitted and the pipeline raises while it is pushed through: its reference is never released, so it is never
\* committed; the source goes on polling.  (Under the in-order proviso nothing behind it on its partition completes.)
FailBatch(i) ==
    /\ alive /\ i \in 1 .. Len(fl) /\ fl[i].st = "scheduled"
    /\ \A j \in 1 .. (i - 1) : fl[j].st # "scheduled"
    /\ fl' = [fl EXCEPT ![i].st = "failed"]
    /\ emitted' = Append(emitted, <<fl[i].p, fl[i].lo, fl[i].hi>>)
    /\ UNCHANGED <<hw, nparts, committed, alive, positions, known, first, seed, origin, processed, lost, crashes, inc>>

\* the consumer has completely processed the batch: reference count reaches zero, commit callback queued
Process(i) ==
    /\ alive /\ i \in 1 .. Len(fl) /\ fl[i].st = "emitted"
    /\ InOrder => \A j \in 1 .. (i - 1) : fl[j].p = fl[i].p => fl[j].st \in {"processed", "committed"}
    /\ fl' = [fl EXCEPT ![i].st = "processed"]
    /\ processed' = processed \cup {<<fl[i].p, o>> : o \in fl[i].lo .. fl[i].hi}
    /\ UNCHANGED <<hw, nparts, committed, alive, positions, known, first, emitted, seed, origin, lost, crashes, inc>>

\* commit(hi + 1), asynchronous, of a processed batch
CommitCb(i) ==
    /\ alive /\ i \in 1 .. Len(fl) /\ fl[i].st = "processed"
    /\ committed' = [committed EXCEPT ![fl[i].p] = fl[i].hi + 1]
    /\ fl' = [fl EXCEPT ![i].st = "committed"]
    /\ UNCHANGED <<hw, nparts, alive, positions, known, first, emitted, seed, origin, processed, lost, crashes, inc>>

\* the process dies: everything but the broker is lost
Crash ==
    /\ alive /\ crashes < MaxCrashes
    /\ alive' = FALSE /\ crashes' = crashes + 1 /\ fl' = <<>>
    \* a message below the committed offset that was never processed will not be delivered again
    /\ lost' = lost \cup {<<p, o>> \in Parts \X (0 .. MaxMsgs) :
                              p < nparts /\ committed[p] # NoOffset /\ o < committed[p] /\ o < hw[p]
                              /\ origin[p] # NoOffset /\ o >= origin[p] /\ <<p, o>> \notin processed}
    /\ UNCHANGED <<hw, nparts, committed, positions, known, first, emitted, seed, origin, processed, inc>>

Next == (\E p \in Parts : Produce(p)) \/ AddPartition \/ Start \/ PollCycle \/ Crash
        \/ \E i \in 1 .. (MaxMsgs * MaxParts + 2) : EmitBatch(i) \/ Process(i) \/ CommitCb(i) \/ (Faults /\ FailBatch(i))
Spec == Init /\ [][Next]_vars

----------------------------------------------------------------------------
OfPart(p) == SelectSeq(emitted, LAMBDA b : b[1] = p)
\* C09: ranges of a partition are contiguous and non-overlapping ...
Contiguous == \A p \in Parts : \A i \in 1 .. (Len(OfPart(p)) - 1) : OfPart(p)[i + 1][2] = OfPart(p)[i][3] + 1
WellFormed == \A i \in 1 .. Len(emitted) : emitted[i][2] <= emitted[i][3]
\* ... start at the committed offset of the group (or at the configured reset position) ...
StartsAtSeed == \A p \in Parts : OfPart(p) # <<>> => OfPart(p)[1][2] = seed[p]
\* ... never pass the high watermark, never exceed the batch size
BelowHighWatermark == \A i \in 1 .. Len(emitted) : emitted[i][3] < hw[emitted[i][1]]
SizeLimit == \A i \in 1 .. Len(emitted) : emitted[i][3] - emitted[i][2] + 1 <= MaxBatch
\* C09: an offset is committed only when the batch ending just before it has been completely processed
CommitAfterProcess == \A p \in Parts : committed[p] # NoOffset /\ committed[p] > 0 => <<p, committed[p] - 1>> \in processed
\* C09 (at-least-once): at no crash is an unprocessed message left behind the committed offset
AtLeastOnce == lost = {}
=============================================================================
