------------------------- MODULE KafkaBatchedTrace -------------------------
(* Trace validation of the real FromKafkaBatched source (in-memory confluent_kafka fake) against KafkaBatched. *)
(* The poll cycle itself is not observable: PollCycle is a silent step; positions are logged after every       *)
(* operation and pin it down.                                                                                  *)
EXTENDS KafkaBatched, Json, IOUtils, TLCExt
Traces == JsonDeserialize(IOEnv.TRACE_FILE)
VARIABLES tid, l
tvars == <<vars, tid, l>>
T == Traces[tid].ev
Same == UNCHANGED vars
Max(a, b) == IF a > b THEN a ELSE b
TraceInit == /\ tid \in 1 .. Len(Traces) /\ l = 1 /\ Init /\ TLCSet(tid, 1)

Has(p, lo, hi, st) == \E i \in 1 .. Len(fl) : fl[i].p = p /\ fl[i].lo = lo /\ fl[i].hi = hi /\ fl[i].st = st
Idx(p, lo, hi, st) == CHOOSE i \in 1 .. Len(fl) : fl[i].p = p /\ fl[i].lo = lo /\ fl[i].hi = hi /\ fl[i].st = st

Event(ev) ==
    CASE ev.ev = "Produce" -> Produce(ev.p)
      [] ev.ev = "AddPartition" -> AddPartition
      [] ev.ev = "Start" -> Start
      [] ev.ev = "EmitBatch" -> ev.exact /\ Has(ev.p, ev.lo, ev.hi, "scheduled") /\ EmitBatch(Idx(ev.p, ev.lo, ev.hi, "scheduled"))
      [] ev.ev = "MsgDeliver" -> Same          \* (behind flatten(): a single message reaches the consumer)
      [] ev.ev = "FailBatch" -> Has(ev.p, ev.lo, ev.hi, "scheduled") /\ FailBatch(Idx(ev.p, ev.lo, ev.hi, "scheduled"))
      [] ev.ev = "Process" -> Has(ev.p, ev.lo, ev.hi, "emitted") /\ Process(Idx(ev.p, ev.lo, ev.hi, "emitted"))
      [] ev.ev = "Commit" -> \E i \in 1 .. Len(fl) : fl[i].p = ev.p /\ fl[i].hi + 1 = ev.offset /\ CommitCb(i)
      [] ev.ev = "Crash" -> Crash
      \* stop() followed at once by start() on the running source (plain life-cycle calls, no crash): the polling loop is
      \* still suspended and carries on -- positions, batches in flight and the commit protocol are untouched
      [] ev.ev = "Restart" -> Same
      [] ev.ev = "ObsPos" -> (\A p \in 0 .. (Len(ev.pos) - 1) : positions[p] = ev.pos[p + 1]) /\ known = Len(ev.pos) /\ Same
      [] ev.ev = "End" -> (\A i \in 1 .. Len(fl) : fl[i].st # "scheduled") /\ Same
      [] OTHER -> FALSE

TraceNext ==
    \/ /\ l <= Len(T) /\ Event(T[l])
       /\ l' = l + 1 /\ TLCSet(tid, Max(TLCGet(tid), l + 1)) /\ UNCHANGED tid
    \/ /\ l <= Len(T) /\ PollCycle /\ UNCHANGED <<tid, l>>

TraceSpec == TraceInit /\ [][TraceNext]_tvars
TraceInv == Contiguous /\ WellFormed /\ StartsAtSeed /\ BelowHighWatermark /\ SizeLimit /\ CommitAfterProcess /\ AtLeastOnce
Report == \A i \in 1 .. Len(Traces) : PrintT(<<"REACHED", Traces[i].id, TLCGet(i), Len(Traces[i].ev) + 1>>)
=============================================================================
