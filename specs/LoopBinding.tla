---------------------------- MODULE LoopBinding ----------------------------
(***************************************************************************)
(* How a new node is bound to an event loop and to the asynchronous /      *)
(* blocking mode: Stream.__init__, _set_asynchronous, _inform_asynchronous,*)
(* _set_loop, _inform_loop, get_io_loop (core.py:41-61, 244-318).          *)
(*                                                                         *)
(*   __init__(upstreams, loop, asynchronous, ensure_io_loop):              *)
(*     1 _set_asynchronous(asynchronous): explicit -> percolate through    *)
(*       the graph (raise on conflict); else inherit True from an upstream *)
(*     2 _set_loop(loop): explicit -> percolate (raise on conflict); else  *)
(*       inherit the first upstream loop                                   *)
(*     3 if ensure_io_loop and no loop and mode undeclared:                *)
(*           _set_asynchronous(False)                                      *)
(*     4 if no loop and mode declared: _set_loop(get_io_loop(mode))        *)
(*           (True: the caller's current loop; False: the shared           *)
(*            background loop, whose thread is started on first use)       *)
(*     5 attach to the upstreams                                           *)
(* Percolation is a depth-first walk over upstreams and downstreams that   *)
(* stops at nodes already carrying the value and raises at nodes carrying  *)
(* a different one (possibly after other nodes were already updated).      *)
(* ForceSync = TRUE models the pinned tree before the fix: step 3 ignored  *)
(* a declared mode and forced asynchronous=False.                          *)
(*                                                                         *)
(* Source.start() hands the polling coroutine to the *node's* loop         *)
(* (loop.add_callback, which is thread-safe), whatever thread or loop the  *)
(* caller of start() is on: Run(n, from).  StarterLoop = TRUE is the       *)
(* tempting shortcut (ensure_future on the starter's current loop).        *)
(***************************************************************************)
EXTENDS Integers, Sequences, FiniteSets, TLC

CONSTANTS MaxNodes, ForceSync,
          WithRun,      \* explore Run steps in the model (off in the large constructor-only exploration)
          StarterLoop

\* loops: 0 none, 1 = L1, 2 = L2 (explicit loop objects), 3 = CUR (caller's current loop), 4 = BG
\* modes: 0 undeclared, 1 = True, 2 = False
VARIABLES ups, downs, loop, mode, bg, last, dirty,
          ranOn     \* ranOn[n]: the loop on which the callbacks of source n were seen to run (0: not started / never ran)
\* last: outcome of the last Create: [raised, args]
\* dirty: a constructor raised half-way, or joined pipelines that were already bound differently
vars == <<ups, downs, loop, mode, bg, last, dirty, ranOn>>

N == Len(ups)
Nodes == 1 .. N
CUR == 3
BG == 4

Init == ups = <<>> /\ downs = <<>> /\ loop = <<>> /\ mode = <<>> /\ bg = FALSE
        /\ last = [raised |-> FALSE, n |-> 0, la |-> 0, aa |-> 0, ens |-> FALSE, ups |-> <<>>, bgNew |-> FALSE]
        /\ dirty = FALSE /\ ranOn = <<>>

\* a percolation state: [loop, mode, raised]
RECURSIVE InformLoop(_, _, _, _, _), InformLoopAll(_, _, _, _, _)
InformLoop(st, U, D, n, L) ==           \* Stream._inform_loop
    IF st.raised THEN st
    ELSE IF st.loop[n] # 0
    THEN (IF st.loop[n] # L THEN [st EXCEPT !.raised = TRUE] ELSE st)
    ELSE InformLoopAll([st EXCEPT !.loop[n] = L], U, D, U[n] \o D[n], L)
InformLoopAll(st, U, D, todo, L) ==
    IF todo = <<>> \/ st.raised THEN st
    ELSE InformLoopAll(InformLoop(st, U, D, Head(todo), L), U, D, Tail(todo), L)

RECURSIVE InformMode(_, _, _, _, _), InformModeAll(_, _, _, _, _)
InformMode(st, U, D, n, A) ==           \* Stream._inform_asynchronous
    IF st.raised THEN st
    ELSE IF st.mode[n] # 0
    THEN (IF st.mode[n] # A THEN [st EXCEPT !.raised = TRUE] ELSE st)
    ELSE InformModeAll([st EXCEPT !.mode[n] = A], U, D, U[n] \o D[n], A)
InformModeAll(st, U, D, todo, A) ==
    IF todo = <<>> \/ st.raised THEN st
    ELSE InformModeAll(InformMode(st, U, D, Head(todo), A), U, D, Tail(todo), A)

FirstWith(s, P(_)) == IF \E i \in 1 .. Len(s) : P(s[i])
                      THEN (CHOOSE i \in 1 .. Len(s) : P(s[i]) /\ \A j \in 1 .. (i - 1) : ~P(s[j]))
                      ELSE 0

\* the constructor; U: upstream node ids, la: explicit loop (0 none), aa: explicit mode (0 none)
Construct(U, la, aa, ens) ==
    LET n  == N + 1
        U1 == Append(ups, U)                      \* self.upstreams is set first
        D1 == Append(downs, <<>>)                 \* nobody points at the new node yet
        s0 == [loop |-> Append(loop, 0), mode |-> Append(mode, 0), raised |-> FALSE]
        \* 1
        ia == FirstWith(U, LAMBDA u : mode[u] = 1)
        s1 == IF aa # 0 THEN InformMode(s0, U1, D1, n, aa)
              ELSE IF ia # 0 THEN [s0 EXCEPT !.mode[n] = 1] ELSE s0
        \* 2
        il == FirstWith(U, LAMBDA u : s1.loop[u] # 0)
        s2 == IF s1.raised THEN s1
              ELSE IF la # 0 THEN InformLoop(s1, U1, D1, n, la)
              ELSE IF il # 0 THEN [s1 EXCEPT !.loop[n] = s1.loop[U[il]]] ELSE s1
        \* 3
        s3 == IF s2.raised THEN s2
              ELSE IF ens /\ s2.loop[n] = 0 /\ (ForceSync \/ s2.mode[n] = 0)
              THEN InformMode([s2 EXCEPT !.mode[n] = 0], U1, D1, n, 2)
              ELSE s2
        \* 4
        s4 == IF s3.raised THEN s3
              ELSE IF s3.loop[n] = 0 /\ s3.mode[n] # 0
              THEN InformLoop(s3, U1, D1, n, IF s3.mode[n] = 1 THEN CUR ELSE BG)
              ELSE s3
    IN s4

Create(U, la, aa, ens) ==
    /\ N < MaxNodes
    /\ LET s == Construct(U, la, aa, ens)
           n == N + 1
           usedBG == ~s.raised /\ \E i \in 1 .. Len(s.loop) : s.loop[i] = BG
           \* get_io_loop(False) is *called* (and starts the thread) in step 4 even if the percolation then raises
           calledBG == \E i \in 1 .. Len(s.loop) : s.loop[i] = BG
       IN /\ bg' = (bg \/ calledBG)
          /\ last' = [raised |-> s.raised, n |-> n, la |-> la, aa |-> aa, ens |-> ens, ups |-> U, bgNew |-> (calledBG /\ ~bg)]
          /\ dirty' = (dirty \/ s.raised
                        \/ \E i, j \in 1 .. Len(U) : (loop[U[i]] # 0 /\ loop[U[j]] # 0 /\ loop[U[i]] # loop[U[j]])
                                                       \/ (mode[U[i]] # 0 /\ mode[U[j]] # 0 /\ mode[U[i]] # mode[U[j]]))
          /\ IF s.raised
             THEN \* the half-built node is dropped; nodes updated before the conflict was met stay updated
                  /\ loop' = SubSeq(s.loop, 1, N) /\ mode' = SubSeq(s.mode, 1, N)
                  /\ UNCHANGED <<ups, downs, ranOn>>
             ELSE /\ loop' = s.loop /\ mode' = s.mode /\ ranOn' = Append(ranOn, 0)
                  /\ ups' = Append(ups, U)
                  /\ downs' = [i \in 1 .. n |-> IF i = n THEN <<>>
                                               ELSE IF \E j \in 1 .. Len(U) : U[j] = i THEN Append(downs[i], n) ELSE downs[i]]

\* start() of source n called from a thread whose current loop is `from` (0: a thread without a loop)
Run(n, from) ==
    /\ n \in Nodes /\ ups[n] = <<>> /\ loop[n] # 0 /\ ranOn[n] = 0
    /\ ranOn' = [ranOn EXCEPT ![n] = IF StarterLoop /\ mode[n] = 1 THEN from ELSE loop[n]]
    /\ UNCHANGED <<ups, downs, loop, mode, bg, last, dirty>>

UpChoices == {<<>>} \cup {<<u>> : u \in Nodes} \cup {<<u, v>> : u \in Nodes, v \in Nodes}
Next == \/ \E U \in UpChoices, la \in 0 .. 2, aa \in 0 .. 2, ens \in BOOLEAN :
              (\A i, j \in 1 .. Len(U) : i # j => U[i] # U[j]) /\ Create(U, la, aa, ens)
        \/ (WithRun /\ \E n \in Nodes, from \in 0 .. 5 : Run(n, from))
Spec == Init /\ [][Next]_vars

----------------------------------------------------------------------------
Linked(a, b) == (\E i \in 1 .. Len(ups[a]) : ups[a][i] = b) \/ (\E i \in 1 .. Len(ups[b]) : ups[b][i] = a)
\* the statement leaves joins of pipelines that were bound to different loops / modes beforehand
\* (without an explicit argument) unconstrained: Clean = no such join has happened
\* C19: one event loop per pipeline -- connected nodes never carry two different loops / modes
OneLoopPerPipeline == ~dirty => \A a, b \in Nodes : Linked(a, b) /\ loop[a] # 0 /\ loop[b] # 0 => loop[a] = loop[b]
OneModePerPipeline == ~dirty => \A a, b \in Nodes : Linked(a, b) /\ mode[a] # 0 /\ mode[b] # 0 => mode[a] = mode[b]

\* C19: a source runs all its callbacks on the loop it is bound to, whoever starts it from wherever
RunsOnOwnLoop == \A n \in 1 .. Len(ranOn) : ranOn[n] # 0 => ranOn[n] = loop[n]

\* the outcome of the last constructor call, for a node that extends exactly one pipeline (or none)
L == last
\* (a state is only judged while every constructor so far either succeeded or was not attempted on a
\* graph left half-updated by a raising one)
Fresh == ~dirty /\ L.n # 0 /\ ~L.raised /\ L.n = N
\* C19: a created node inherits the loop of the pipeline it extends when it asks for nothing
Inherits == (Fresh /\ L.la = 0 /\ L.aa = 0 /\ Len(L.ups) = 1 /\ ~L.ens) =>
                /\ loop[L.n] = loop[L.ups[1]]
                /\ (mode[L.ups[1]] = 1) = (mode[L.n] = 1)
InheritsLoopNeeded == (Fresh /\ L.la = 0 /\ L.aa = 0 /\ Len(L.ups) = 1 /\ L.ens) =>
                /\ loop[L.n] # 0 /\ loop[L.n] = loop[L.ups[1]]
                /\ (mode[L.ups[1]] = 1) = (mode[L.n] = 1)
\* C19: a node declared asynchronous is on the caller's loop (unless an explicit loop was given) ...
AsyncStaysOnCaller == (Fresh /\ L.aa = 1 /\ L.la = 0) => (mode[L.n] = 1 /\ loop[L.n] \in {CUR, 1, 2})
AsyncOnCallerWhenAlone == (Fresh /\ L.aa = 1 /\ L.la = 0 /\ L.ups = <<>>) => loop[L.n] = CUR
\* ... and declaring a node asynchronous never starts the background thread
AsyncNeverStartsBG == (~dirty /\ L.n # 0 /\ L.aa = 1) => ~L.bgNew
\* C19: a loop-requiring node that is not asynchronous and has no loop uses the shared background loop
FallbackBG == (Fresh /\ L.ens /\ L.aa # 1 /\ L.la = 0 /\ L.ups = <<>>) => (loop[L.n] = BG /\ mode[L.n] = 2 /\ bg)
\* an explicit loop is honoured
ExplicitLoop == (Fresh /\ L.la # 0) => loop[L.n] = L.la
\* C19: an explicit request that conflicts with the pipeline raises (it is never silently accepted)
ConflictRaises == (L.n # 0 /\ Len(L.ups) >= 1 /\ ~L.raised) =>
                     /\ (L.la # 0 /\ \E i \in 1 .. Len(L.ups) : (loop[L.ups[i]] # 0 /\ loop[L.ups[i]] # L.la /\ L.raised = FALSE)) = FALSE
                     /\ (L.aa # 0 /\ \E i \in 1 .. Len(L.ups) : (mode[L.ups[i]] # 0 /\ mode[L.ups[i]] # L.aa /\ L.raised = FALSE)) = FALSE
=============================================================================
