------------------------- MODULE LoopBindingTrace -------------------------
(* Trace validation: constructor calls on the real Stream classes, with the loop / mode of every node *)
(* projected after each call, against LoopBinding.                                                   *)
EXTENDS LoopBinding, Json, IOUtils, TLCExt
Traces == JsonDeserialize(IOEnv.TRACE_FILE)
VARIABLES tid, l
tvars == <<vars, tid, l>>
T == Traces[tid].ev
Max(a, b) == IF a > b THEN a ELSE b
TraceInit == /\ tid \in 1 .. Len(Traces) /\ l = 1 /\ Init /\ TLCSet(tid, 1)
Event(ev) ==
    /\ Create(ev.ups, ev.la, ev.aa, ev.ens)
    /\ last'.raised = ev.raised
    /\ loop' = ev.loop /\ mode' = ev.mode
    /\ last'.bgNew = ev.bgNew
TraceNext == /\ l <= Len(T) /\ Event(T[l])
             /\ l' = l + 1 /\ TLCSet(tid, Max(TLCGet(tid), l + 1)) /\ UNCHANGED tid
TraceSpec == TraceInit /\ [][TraceNext]_tvars
TraceInv == /\ OneLoopPerPipeline /\ OneModePerPipeline /\ Inherits /\ InheritsLoopNeeded /\ AsyncStaysOnCaller
            /\ AsyncOnCallerWhenAlone /\ AsyncNeverStartsBG /\ FallbackBG /\ ExplicitLoop /\ ConflictRaises
Report == \A i \in 1 .. Len(Traces) : PrintT(<<"REACHED", Traces[i].id, TLCGet(i), Len(Traces[i].ev) + 1>>)
=============================================================================
