------------------------- MODULE LoopBindingTrace -------------------------
(* Trace validation: constructor calls on the real Stream classes, with the loop / mode of every node *)
(* projected after each call, against LoopBinding.                                                   *)
EXTENDS LoopBinding, Json, IOUtils, TLCExt
Traces == JsonDeserialize(IOEnv.TRACE_FILE)
VARIABLES tid, l
tvars == <<vars, tid, l>>
T == Traces[tid].ev
Max(a, b) == IF a > b THEN a ELSE b
TraceInit == /\ tid \in 1 .. Len(Traces) /\ l = 1 /\ Init /\ TLCSet(tid, 1)
Event(ev) ==
    IF "run" \in DOMAIN ev
    THEN \* start() called from context ev.from; ev.on: the loop on which the source's callbacks were seen (0: never)
         /\ Run(ev.run, ev.from) /\ ranOn'[ev.run] = ev.on
    ELSE /\ Create(ev.ups, ev.la, ev.aa, ev.ens)
         /\ last'.raised = ev.raised
         /\ loop' = ev.loop /\ mode' = ev.mode
         /\ last'.bgNew = ev.bgNew
TraceNext == /\ l <= Len(T) /\ Event(T[l])
             /\ l' = l + 1 /\ TLCSet(tid, Max(TLCGet(tid), l + 1)) /\ UNCHANGED tid
TraceSpec == TraceInit /\ [][TraceNext]_tvars
TraceInv == /\ OneLoopPerPipeline /\ OneModePerPipeline /\ Inherits /\ InheritsLoopNeeded /\ AsyncStaysOnCaller
            /\ AsyncOnCallerWhenAlone /\ AsyncNeverStartsBG /\ FallbackBG /\ ExplicitLoop /\ ConflictRaises /\ RunsOnOwnLoop
Report == \A i \in 1 .. Len(Traces) : PrintT(<<"REACHED", Traces[i].id, TLCGet(i), Len(Traces[i].ev) + 1>>)
=============================================================================
