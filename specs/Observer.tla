------------------------------ MODULE Observer ------------------------------
(***************************************************************************)
(* Property-level monitor for composite pipelines (asynchronous nodes      *)
(* placed anywhere among synchronous ones, Dask segments with windows).    *)
(* The *synchronous twin* of the pipeline -- the same pipeline with the    *)
(* timing nodes removed, whose meaning SyncFlow defines -- is run on the   *)
(* same inputs with one metadata tag per source element.  That gives:      *)
(*   Expected[k]  the k-th value the sink must receive,                    *)
(*   Lineage[k]   the source elements that contributed to it,              *)
(*   Held         the elements some node still legitimately holds at the   *)
(*                end (last window, unfilled partition, latest values).    *)
(* The observable behaviour of the real asynchronous pipeline is a         *)
(* sequence of Deliver / Consume / Fire events; the actions below accept   *)
(* any such sequence, the invariants are the properties.                   *)
(***************************************************************************)
EXTENDS Integers, Sequences, FiniteSets, TLC

CONSTANTS Scenarios  \* the twin runs to monitor: records [ne, nd, lineage, held, ordered, sink]

VARIABLES sc,        \* the scenario being monitored (fixed after Init)
          delivered, consumed, fired,
          failed     \* deliveries whose consumer raised
vars == <<sc, delivered, consumed, fired, failed>>

NE == sc.ne            \* source elements 1..NE
ND == sc.nd            \* number of expected deliveries
Lineage == sc.lineage  \* [1..ND -> SUBSET (1..NE)]
Held == sc.held        \* SUBSET (1..NE)
Ordered == sc.ordered  \* the pipeline guarantees delivery order (every lossless pipeline does)
SinkOf == sc.sink      \* [1..ND -> sink]: which consumer the k-th expected delivery goes to (several consumers side by side:
                       \* each one sees its own values in order; how the consumers' deliveries interleave is the schedule's business)

Init == sc \in Scenarios /\ delivered = <<>> /\ consumed = {} /\ fired = <<>> /\ failed = {}

\* the sink's update() is called with the k-th expected value (0: a value the twin never produces)
Deliver(k) == /\ delivered' = Append(delivered, k) /\ UNCHANGED <<sc, consumed, fired, failed>>
\* the sink's awaitable for that delivery finishes
Consume(k) == /\ consumed' = consumed \cup {k} /\ UNCHANGED <<sc, delivered, fired, failed>>
\* the completion callback of source element e is scheduled
Fire(e) == /\ fired' = Append(fired, e) /\ UNCHANGED <<sc, delivered, consumed, failed>>
\* the sink's awaitable for delivery k raises (the pipeline behind it may stop working: nothing is demanded of
\* later deliveries, but no callback may ever report the elements of k as done)
Fail(k) == /\ failed' = failed \cup {k} /\ UNCHANGED <<sc, delivered, consumed, fired>>

Next == (\E k \in 0 .. ND : Deliver(k) \/ Consume(k) \/ Fail(k)) \/ (\E e \in 1 .. NE : Fire(e))
Spec == Init /\ [][Next]_vars

----------------------------------------------------------------------------
Range(s) == {s[i] : i \in 1 .. Len(s)}
\* C02 / C20: exactly the values of the synchronous semantics, each once, in order
OnlyExpected == \A i \in 1 .. Len(delivered) : delivered[i] \in 1 .. ND
NoDuplicate == \A i, j \in 1 .. Len(delivered) : i # j => delivered[i] # delivered[j]
\* (relative order; that nothing is missing is Complete, checked at the end)
InOrder == Ordered => \A i, j \in 1 .. Len(delivered) :
                          (i < j /\ delivered[i] \in 1 .. ND /\ delivered[j] \in 1 .. ND /\ SinkOf[delivered[i]] = SinkOf[delivered[j]])
                          => delivered[i] < delivered[j]
\* C04: no completion callback while anything derived from the element is undelivered or still being handled
CbSafe == \A i \in 1 .. Len(fired) : \A k \in 1 .. ND : fired[i] \in Lineage[k] => k \in consumed
\* C04: never for an element whose processing raised
RaisedNeverFires == \A i \in 1 .. Len(fired) : \A k \in failed \cap (1 .. ND) : fired[i] \notin Lineage[k]
\* C05: at most once
FiredOnce == \A i, j \in 1 .. Len(fired) : i # j => fired[i] # fired[j]
\* at the end (checked by the trace specification): everything delivered and consumed, every element that has left
\* the pipeline signalled, the held ones not
Complete == failed # {} \/
            /\ Range(delivered) = 1 .. ND /\ consumed = 1 .. ND
            /\ Range(fired) = (1 .. NE) \ Held
=============================================================================
