--------------------------- MODULE ObserverTrace ---------------------------
(* One run of a real composite pipeline per trace; NE, ND, Lineage, Held come from the trace (the twin's run). *)
EXTENDS Observer, Json, IOUtils, TLCExt
Traces == JsonDeserialize(IOEnv.TRACE_FILE)
VARIABLES tid, l
TR == Traces[tid]
ToSet(s) == {s[i] : i \in 1 .. Len(s)}
tvars == <<vars, tid, l>>
T == TR.ev
Max(a, b) == IF a > b THEN a ELSE b
TraceInit == /\ tid \in 1 .. Len(Traces) /\ l = 1 /\ TLCSet(tid, 1)
             /\ sc = [ne |-> TR.ne, nd |-> TR.nd, lineage |-> [k \in 1 .. TR.nd |-> ToSet(TR.lineage[k])],
                      held |-> ToSet(TR.held), ordered |-> TR.ordered,
                      sink |-> IF "sink" \in DOMAIN TR THEN [k \in 1 .. TR.nd |-> TR.sink[k]] ELSE [k \in 1 .. TR.nd |-> 1]]
             /\ delivered = <<>> /\ consumed = {} /\ fired = <<>> /\ failed = {}
Event(ev) ==
    CASE ev.ev = "Deliver" -> Deliver(ev.k)
      [] ev.ev = "Consume" -> Consume(ev.k)
      [] ev.ev = "Fire" -> Fire(ev.e)
      [] ev.ev = "Fail" -> Fail(ev.k)
      [] ev.ev = "End" -> Complete /\ UNCHANGED vars
      [] OTHER -> FALSE
\* a property that fails is reported with its name; the trace is not followed further
Verdict == IF ~OnlyExpected THEN "OnlyExpected" ELSE IF ~NoDuplicate THEN "NoDuplicate" ELSE IF ~InOrder THEN "InOrder"
           ELSE IF ~RaisedNeverFires THEN "RaisedNeverFires" ELSE IF ~CbSafe THEN "CbSafe" ELSE IF ~FiredOnce THEN "FiredOnce" ELSE ""
TraceNext ==
    /\ l <= Len(T)
    /\ IF Verdict # "" THEN PrintT(<<"BROKEN", TR.id, l - 1, Verdict>>) /\ FALSE
       ELSE /\ Event(T[l])
            /\ l' = l + 1 /\ TLCSet(tid, Max(TLCGet(tid), l + 1)) /\ UNCHANGED tid
TraceSpec == TraceInit /\ [][TraceNext]_tvars
Report == \A i \in 1 .. Len(Traces) : PrintT(<<"REACHED", Traces[i].id, TLCGet(i), Len(Traces[i].ev) + 1>>)
NoScenarios == {}
=============================================================================
