----------------------------- MODULE SourceLoop -----------------------------
(***************************************************************************)
(* streamz.sources.Source start/stop/run (sources.py:26-82), from_periodic *)
(* (sources.py:85-106) and from_iterable (sources.py:765-795).             *)
(*                                                                         *)
(*   start(): if stopped: stopped = False;                                 *)
(*                         if no run loop is active: loop.add_callback(run)*)
(*   stop():  stopped = True                                               *)
(*   run():   while not stopped: await _run()          (one polling cycle) *)
(*   from_periodic._run(): await gather(.._emit(cb())); await sleep(poll)   *)
(*   from_iterable.run():  for x in it: if stopped: break                  *)
(*                             await gather(.._emit(x)); if stopped: break  *)
(*                         stopped = True                                  *)
(*                                                                         *)
(* A run loop is an instance with a pc; start/stop are environment actions *)
(* that can fall between any two steps of an instance (during the sleep,   *)
(* during a back-pressured emit, between items).  Guarded = FALSE models   *)
(* the pinned tree before the fix: start() schedules a new run loop even   *)
(* if the previous one is still suspended, so two loops poll at once.      *)
(***************************************************************************)
EXTENDS Integers, Sequences, FiniteSets, TLC

CONSTANTS Kind,      \* "periodic" | "iterable" | "polling" (from_kafka: poll; a message -> emit it and poll again, none -> sleep)
          DoWhile,   \* polling: TRUE = the pinned tree's loop, which tests `stopped` only *after* a poll (a loop instance that
                     \* finds the source stopped when it first runs still polls once); FALSE = test first
          NI,        \* iterable: number of items; periodic: bound on emissions explored
          Poll,      \* periodic: sleep between cycles (clock units)
          MaxLoops,  \* pool of run-loop instances
          MaxTime, MaxCalls, Guarded, SyncCons

VARIABLES stopped, pc, wake, nextItem, emitted, busy, now, ncalls
\* pc[i]: "unused" | "scheduled" | "check" | "poll" | "emitting" | "sleeping" | "done"
\* emitted: <<item, time, loop instance, stopped-at-that-moment>>; busy: the consumer of loop i's emission is unfinished
vars == <<stopped, pc, wake, nextItem, emitted, busy, now, ncalls>>
Loops == 1 .. MaxLoops
Active(i) == pc[i] \in {"scheduled", "check", "poll", "emitting", "sleeping"}

Init ==
    /\ stopped = TRUE /\ pc = [i \in Loops |-> "unused"] /\ wake = [i \in Loops |-> 0]
    /\ nextItem = 1 /\ emitted = <<>> /\ busy = {} /\ now = 0 /\ ncalls = 0

Start ==
    /\ ncalls < MaxCalls /\ ncalls' = ncalls + 1
    /\ IF stopped
       THEN /\ stopped' = FALSE
            /\ IF Guarded /\ \E i \in Loops : Active(i)
               THEN pc' = pc
               ELSE \E i \in Loops : /\ pc[i] = "unused" /\ \A j \in Loops : j < i => pc[j] # "unused"
                                     /\ pc' = [pc EXCEPT ![i] = "scheduled"]
       ELSE UNCHANGED <<stopped, pc>>
    /\ UNCHANGED <<wake, nextItem, emitted, busy, now>>

Stop ==
    /\ ncalls < MaxCalls /\ ncalls' = ncalls + 1
    /\ stopped' = TRUE
    /\ UNCHANGED <<pc, wake, nextItem, emitted, busy, now>>

\* the scheduled run() callback starts
Begin(i) ==
    /\ pc[i] = "scheduled" /\ pc' = [pc EXCEPT ![i] = IF Kind = "polling" /\ DoWhile THEN "poll" ELSE "check"]
    /\ UNCHANGED <<stopped, wake, nextItem, emitted, busy, now, ncalls>>

\* loop test; a new cycle begins (and emits) only if not stopped
Check(i) ==
    /\ pc[i] = "check"
    /\ IF Kind = "polling" /\ ~stopped
       THEN \* the loop test and the poll are one atomic section: a message -> emit it; none -> sleep
            \/ /\ nextItem <= NI
               /\ emitted' = Append(emitted, <<nextItem, now, i, stopped>>) /\ nextItem' = nextItem + 1
               /\ busy' = IF SyncCons THEN busy ELSE busy \cup {i}
               /\ pc' = [pc EXCEPT ![i] = "emitting"] /\ UNCHANGED stopped
            \/ /\ pc' = [pc EXCEPT ![i] = "sleeping"] /\ UNCHANGED <<stopped, nextItem, emitted, busy>>
       ELSE
       IF stopped \/ (Kind = "iterable" /\ nextItem > NI)
       THEN /\ pc' = [pc EXCEPT ![i] = "done"]
            /\ stopped' = IF Kind = "iterable" THEN TRUE ELSE stopped
            /\ UNCHANGED <<nextItem, emitted, busy>>
       ELSE /\ nextItem <= NI
            /\ emitted' = Append(emitted, <<nextItem, now, i, stopped>>)
            /\ nextItem' = nextItem + 1
            /\ busy' = IF SyncCons THEN busy ELSE busy \cup {i}
            /\ pc' = [pc EXCEPT ![i] = "emitting"]
            /\ UNCHANGED stopped
    /\ wake' = IF Kind = "polling" /\ pc'[i] = "sleeping" THEN [wake EXCEPT ![i] = now + Poll] ELSE wake
    /\ UNCHANGED <<now, ncalls>>

\* from_kafka (DoWhile only: the first poll of a loop instance, made without testing `stopped`): one poll of the client -- the environment decides whether a message is there
PollMsg(i) ==
    /\ Kind = "polling" /\ pc[i] = "poll" /\ nextItem <= NI
    /\ emitted' = Append(emitted, <<nextItem, now, i, stopped>>) /\ nextItem' = nextItem + 1
    /\ busy' = IF SyncCons THEN busy ELSE busy \cup {i}
    /\ pc' = [pc EXCEPT ![i] = "emitting"]
    /\ UNCHANGED <<stopped, wake, now, ncalls>>
PollNone(i) ==
    /\ Kind = "polling" /\ pc[i] = "poll"
    /\ pc' = [pc EXCEPT ![i] = "sleeping"] /\ wake' = [wake EXCEPT ![i] = now + Poll]
    /\ UNCHANGED <<stopped, nextItem, emitted, busy, now, ncalls>>

ConsumerDone(i) ==
    /\ i \in busy /\ busy' = busy \ {i}
    /\ UNCHANGED <<stopped, pc, wake, nextItem, emitted, now, ncalls>>

\* downstream finished: periodic sources sleep, from_iterable goes straight to the next test
EmitReturn(i) ==
    /\ pc[i] = "emitting" /\ i \notin busy
    /\ IF Kind = "periodic"
       THEN pc' = [pc EXCEPT ![i] = "sleeping"] /\ wake' = [wake EXCEPT ![i] = now + Poll]
       ELSE pc' = [pc EXCEPT ![i] = "check"] /\ wake' = wake
    /\ UNCHANGED <<stopped, nextItem, emitted, busy, now, ncalls>>

Wake(i) ==
    /\ pc[i] = "sleeping" /\ now >= wake[i]
    /\ pc' = [pc EXCEPT ![i] = "check"]
    /\ UNCHANGED <<stopped, wake, nextItem, emitted, busy, now, ncalls>>

Runnable(i) == pc[i] \in {"scheduled", "check", "poll"} \/ (pc[i] = "emitting" /\ i \notin busy)
               \/ (pc[i] = "sleeping" /\ now >= wake[i])
Advance ==
    /\ now < MaxTime /\ \A i \in Loops : ~Runnable(i)
    /\ now' = now + 1
    /\ UNCHANGED <<stopped, pc, wake, nextItem, emitted, busy, ncalls>>

Internal == \E i \in Loops : Begin(i) \/ Check(i) \/ PollMsg(i) \/ PollNone(i) \/ EmitReturn(i) \/ Wake(i)
Next == Start \/ Stop \/ Internal \/ (\E i \in Loops : ConsumerDone(i)) \/ Advance
Spec == Init /\ [][Next]_vars

----------------------------------------------------------------------------
TypeOK == \A i \in Loops : pc[i] \in {"unused", "scheduled", "check", "poll", "emitting", "sleeping", "done"}
\* C18: at most one polling loop at any time
AtMostOneActive == Cardinality({i \in Loops : Active(i)}) <= 1
\* C18: nothing is emitted twice or out of order; one emission in flight at a time
InOrderOnce == \A k \in 1 .. Len(emitted) : emitted[k][1] = k
OneInFlight == Cardinality(busy) <= 1
\* C18: a polling cycle never begins while the source is stopped
NoCycleWhileStopped == \A k \in 1 .. Len(emitted) : ~emitted[k][4]
\* periodic: consecutive polls are at least the poll interval apart (a restart must not double the rate)
PollSpacing == Kind = "periodic" => \A k \in 1 .. (Len(emitted) - 1) : emitted[k + 1][2] - emitted[k][2] >= Poll
\* from_iterable: after exhaustion the source is stopped and nothing is left
Exhausted == (Kind = "iterable" /\ nextItem > NI /\ \A i \in Loops : ~Active(i)) => stopped
\* start on a started source / stop on a stopped one change nothing (action properties)
StartIdempotent == [][(Start /\ ~stopped) => UNCHANGED <<stopped, pc, nextItem, emitted>>]_vars
StopIdempotent == [][(Stop /\ stopped) => UNCHANGED <<stopped, pc, nextItem, emitted>>]_vars
=============================================================================
