-------------------------- MODULE SourceLoopTrace --------------------------
(* Trace validation of real sources (from_periodic, from_iterable) under start/stop histories.  *)
(* The run-loop instance that performs a step is not observable: Begin, the exiting Check,      *)
(* EmitReturn and Wake are silent and TLC infers them.                                         *)
EXTENDS SourceLoop, Json, IOUtils, TLCExt

Traces == JsonDeserialize(IOEnv.TRACE_FILE)
VARIABLES tid, l
tvars == <<vars, tid, l>>
T == Traces[tid].ev
Same == UNCHANGED vars
Max(a, b) == IF a > b THEN a ELSE b

TraceInit == /\ tid \in 1 .. Len(Traces) /\ l = 1 /\ Init /\ TLCSet(tid, 1)

TraceAdvance(t) ==
    /\ t > now /\ \A i \in Loops : ~Runnable(i)
    /\ \A i \in Loops : pc[i] = "sleeping" => wake[i] >= t
    /\ now' = t
    /\ UNCHANGED <<stopped, pc, wake, nextItem, emitted, busy, ncalls>>

Event(ev) ==
    CASE ev.ev = "Start" -> Start
      [] ev.ev = "Stop" -> Stop
      [] ev.ev = "Emit" -> \E i \in Loops : (PollMsg(i) \/ Check(i)) /\ Len(emitted') = Len(emitted) + 1 /\ nextItem = ev.item
      [] ev.ev = "ConsumerDone" -> \E i \in Loops : ConsumerDone(i)
      [] ev.ev = "Advance" -> TraceAdvance(ev.now)
      [] ev.ev = "ObsStopped" -> stopped = ev.stopped /\ Same
      [] ev.ev = "End" -> Same
      [] OTHER -> FALSE

Silent == \E i \in Loops : Begin(i) \/ (Check(i) /\ emitted' = emitted) \/ PollNone(i) \/ EmitReturn(i) \/ Wake(i)

TraceNext ==
    \/ /\ l <= Len(T) /\ Event(T[l])
       /\ l' = l + 1 /\ TLCSet(tid, Max(TLCGet(tid), l + 1)) /\ UNCHANGED tid
    \/ /\ l <= Len(T) /\ Silent /\ UNCHANGED <<tid, l>>

TraceSpec == TraceInit /\ [][TraceNext]_tvars
TraceInv == TypeOK /\ AtMostOneActive /\ InOrderOnce /\ OneInFlight /\ NoCycleWhileStopped /\ PollSpacing
Report == \A i \in 1 .. Len(Traces) : PrintT(<<"REACHED", Traces[i].id, TLCGet(i), Len(Traces[i].ev) + 1>>)
=============================================================================
