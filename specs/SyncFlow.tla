----------------------------- MODULE SyncFlow -----------------------------
(***************************************************************************)
(* Synchronous dataflow of streamz: Stream._emit fan-out, every            *)
(* synchronous node class of streamz/core.py and streamz/sinks.py,         *)
(* reference counting (retain/release/callback) and user-function faults.  *)
(*                                                                         *)
(* One TLA+ action == one public call (source.emit / collect.flush).       *)
(* The step itself is computed by the recursive operators EmitFrom/Update  *)
(* which transcribe streamz/core.py class by class (line numbers of the    *)
(* pinned tree in the comments).  The properties are stated separately     *)
(* (section CONTRACTS) over the history variables dlog/elog only, as       *)
(* list-level definitions that do not mention the operational state.       *)
(*                                                                         *)
(* Values:  <<"i", n>>  an integer,  <<"t", <<v1,...>> >>  a tuple.        *)
(* Metadata: a sequence of tag ids; tag t carries a RefCounter iff         *)
(* t \in RefTags.                                                          *)
(***************************************************************************)
EXTENDS Integers, Sequences, FiniteSets, TLC

CONSTANTS Programs,      \* set of programs; a program is a sequence of node records
          Vals,          \* integers that may be emitted
          MaxEmits,      \* bound on public calls per behaviour
          MdChoices,     \* metadata shapes: subset of {"none","one","two","noref","mixed"}
          MaxFail        \* how many user-function invocations may fail per behaviour

VARIABLES prog,   \* the program (constant after Init)
          nst,    \* nst[n]: node state, as the class keeps it
          downs,  \* downs[n]: ordered downstream list (OrderedWeakrefSet)
          rc,     \* rc[t]: reference count of tag t
          cbs,    \* sequence of tags whose completion callback was scheduled
          dlog,   \* history: every update() call  <<dest, who, x, md, callno, ownfail>>
          elog,   \* history: every _emit() call   <<node, x, md, callno>>
          flushes,\* history: flushes[k] = <<node, Len(dlog) at the time, callno>>
          calls,  \* number of public calls so far
          failed, \* set of callnos whose emit raised
          nfail   \* number of injected failures so far

vars == <<prog, nst, downs, rc, cbs, dlog, elog, flushes, calls, failed, nfail>>

I(n) == <<"i", n>>
T(s) == <<"t", s>>
Lst(s) == <<"l", s>>          \* a Python list (what the Batch collection of streamz/batch.py passes along)
IsInt(v) == v[1] = "i"
Num(v) == v[2]
Items(v) == v[2]

Tags == 0 .. (3 * MaxEmits + 2)
RefTags == {t \in Tags : t % 3 # 2}          \* tags 3k, 3k+1 carry a RefCounter, 3k+2 do not
MdOf(choice, k) ==
    CASE choice = "none"  -> <<>>
      [] choice = "one"   -> <<3 * k>>
      [] choice = "two"   -> <<3 * k, 3 * k + 1>>
      [] choice = "noref" -> <<3 * k + 2>>
      [] choice = "mixed" -> <<3 * k + 2, 3 * k>>

Nodes == 1 .. Len(prog)

----------------------------------------------------------------------------
(* The interpreted catalogue of user functions (harness/userfuncs.py has   *)
(* the same table in Python).                                              *)

RECURSIVE SumItems(_)
SumItems(s) == IF s = <<>> THEN 0 ELSE Num(Head(s)) + SumItems(Tail(s))

ApplyF(f, x) ==
    CASE f = "inc"  -> I(Num(x) + 1)
      [] f = "dbl"  -> I(2 * Num(x))
      [] f = "dm3"  -> I((2 * Num(x)) % 3)
      [] f = "id"   -> x
      [] f = "pair" -> T(<<x, I(Num(x) + 1)>>)
      [] f = "wrap" -> T(<<x>>)
      [] f = "rep"  -> T([i \in 1 .. Num(x) |-> I(i)])      \* range(1, x+1): 0 |-> ()
      [] f = "fst"  -> Items(x)[1]
      \* streamz/batch.py: Batch.map / Batch.filter / Batch.pluck are stream-level maps (collection.py map_partitions) whose
      \* function works through the elements of one batch and answers with a list
      [] f = "b_inc"  -> Lst([i \in 1 .. Len(Items(x)) |-> I(Num(Items(x)[i]) + 1)])                    \* Batch.map(inc)
      [] f = "b_pair" -> Lst([i \in 1 .. Len(Items(x)) |-> T(<<Items(x)[i], I(Num(Items(x)[i]) + 1)>>)])   \* Batch.map(pair)
      [] f = "b_even" -> Lst(SelectSeq(Items(x), LAMBDA e : Num(e) % 2 = 0))                            \* Batch.filter(even)
      [] f = "b_pl1"  -> Lst([i \in 1 .. Len(Items(x)) |-> Items(Items(x)[i])[2]])                       \* Batch.pluck(1)

ApplyStar(f, x) ==        \* starmap: func(*x)
    CASE f = "add2" -> I(Num(Items(x)[1]) + Num(Items(x)[2]))
      [] f = "tup"  -> T(Items(x))
      [] f = "snd"  -> Items(x)[Len(Items(x))]
      \* map_partitions(func, a, b) over two streaming collections: zip of the two streams, then func(*pair)
      [] f = "cat"  -> Lst(Items(Items(x)[1]) \o Items(Items(x)[2]))

Pred(f, x) ==
    CASE f = "even" -> Num(x) % 2 = 0
      [] f = "pos"  -> Num(x) > 0
      [] f = "true" -> TRUE
      [] f = "lt2"  -> Num(x) < 2
      [] f = "odd"  -> Num(x) % 2 = 1           \* built as remove(even)
      [] f = "ge2"  -> Num(x) >= 2              \* built as remove(lt2)

KeyF(f, x) ==
    CASE f = "id"   -> x
      [] f = "mod2" -> I(Num(x) % 2)
      [] f = "zero" -> I(0)

Bin(f, s, x) ==
    CASE f = "add"   -> I(Num(s) + Num(x))
      [] f = "max"   -> IF Num(x) > Num(s) THEN x ELSE s
      [] f = "addrs" -> T(<<I(Num(s) + Num(x)), s>>)       \* returns (new state, result = old state)
      [] f = "bsum"  -> I(Num(s) + SumItems(Items(x)))     \* Batch.sum(): accumulate_partitions(acc + sum(new), start=0)
      \* Stream.frequencies(): the state is a table value -> count (pairs sorted by value); every emission is a table of its own
      [] f = "freq"  -> LET ps == Items(s)
                        IN IF \E i \in 1 .. Len(ps) : Items(ps[i])[1] = x
                           THEN T([i \in 1 .. Len(ps) |-> IF Items(ps[i])[1] = x THEN T(<<x, I(Num(Items(ps[i])[2]) + 1)>>) ELSE ps[i]])
                           ELSE T(SelectSeq(ps, LAMBDA p : Num(Items(p)[1]) < Num(x)) \o <<T(<<x, I(1)>>)>>
                                  \o SelectSeq(ps, LAMBDA p : Num(Items(p)[1]) > Num(x)))

----------------------------------------------------------------------------
(* Sequence helpers *)

RECURSIVE FlatSeq(_)
FlatSeq(ss) == IF ss = <<>> THEN <<>> ELSE Head(ss) \o FlatSeq(Tail(ss))

RECURSIVE CountIn(_, _)
CountIn(s, e) == IF s = <<>> THEN 0 ELSE (IF Head(s) = e THEN 1 ELSE 0) + CountIn(Tail(s), e)

LastN(s, k) == IF Len(s) <= k THEN s ELSE SubSeq(s, Len(s) - k + 1, Len(s))
Without(s, e) == SelectSeq(s, LAMBDA z : z # e)
IndexOf(s, e) == CHOOSE i \in 1 .. Len(s) : s[i] = e /\ \A j \in 1 .. (i - 1) : s[j] # e
InSeq(s, e) == \E i \in 1 .. Len(s) : s[i] = e

----------------------------------------------------------------------------
(* Reference counting: RefCounter.retain / release (core.py:91-112),       *)
(* Stream._retain_refs / _release_refs (core.py:644-676).                  *)

RECURSIVE RetainMd(_, _, _)
RetainMd(c, md, k) ==
    IF md = <<>> THEN c
    ELSE LET t == Head(md)
             c1 == IF t \in RefTags THEN [c EXCEPT !.rc[t] = @ + k] ELSE c
         IN RetainMd(c1, Tail(md), k)

RECURSIVE ReleaseMd(_, _, _)
ReleaseMd(c, md, k) ==
    IF md = <<>> THEN c
    ELSE LET t == Head(md)
             c1 == IF t \in RefTags
                   THEN LET v == c.rc[t] - k
                        IN [c EXCEPT !.rc[t] = v,
                                     !.cbs = IF v <= 0 THEN Append(@, t) ELSE @]
                   ELSE c
         IN ReleaseMd(c1, Tail(md), k)

\* one user-function invocation: the k-th invocation of this public call raises iff k \in c.failAt
Call(c) == LET k == c.ncall + 1
           IN [c EXCEPT !.ncall = k, !.fail = (k \in c.failAt)]

----------------------------------------------------------------------------
(* zict.LRU as used by unique(maxsize=m): order is oldest -> newest *)
LruTouch(order, y) == Append(Without(order, y), y)
LruInsert(order, y, m) == LET o == Append(order, y)
                          IN IF Len(o) > m THEN SubSeq(o, Len(o) - m + 1, Len(o)) ELSE o

\* zip.pack_literals (core.py:1618-1630): lits is a sequence of <<position (0-based), value>>
RECURSIVE PackLits(_, _, _)
PackLits(inp, lits, out) ==
    IF lits = <<>> THEN out \o inp
    ELSE LET pos == Head(lits)[1]
             val == Head(lits)[2]
             need == IF pos > Len(out) THEN pos - Len(out) ELSE 0
             take == SubSeq(inp, 1, need)
             rest == SubSeq(inp, need + 1, Len(inp))
         IN PackLits(rest, Tail(lits), out \o take \o <<val>>)

----------------------------------------------------------------------------
(* THE STEP.  c is the context threaded through one public call:           *)
(*  [nst, downs, rc, cbs, dlog, elog, ncall, failAt, fail, callno, ownfail]*)

RECURSIVE EmitFrom(_, _, _, _), EmitLoop(_, _, _, _, _), Update(_, _, _, _, _), UpdateBody(_, _, _, _, _),
          FlattenLoop(_, _, _, _), ZipLatestDrain(_, _)

\* Stream._emit (core.py:429-462)
EmitFrom(c, n, x, md) ==
    LET ds == c.downs[n]                                   \* list(self.downstreams)
        c0 == [c EXCEPT !.elog = Append(@, <<n, x, md, c.callno>>)]
        c1 == IF md # <<>> THEN RetainMd(c0, md, Len(ds)) ELSE c0
    IN EmitLoop(c1, n, x, md, ds)

EmitLoop(c, n, x, md, ds) ==
    IF ds = <<>> \/ c.fail THEN c
    ELSE LET c1 == Update(c, Head(ds), n, x, md)
             c2 == IF c1.fail THEN c1 ELSE ReleaseMd(c1, md, 1)
         IN EmitLoop(c2, n, x, md, Tail(ds))

\* flatten.update (core.py:1754-1773): all items but the last without metadata
FlattenLoop(c, n, items, md) ==
    IF c.fail \/ items = <<>> THEN c
    ELSE IF Len(items) = 1 THEN EmitFrom(c, n, items[1], md)
    ELSE FlattenLoop(EmitFrom(c, n, items[1], <<>>), n, Tail(items), md)

\* zip_latest.update, the while loop (core.py:1985-1992)
ZipLatestDrain(c, n) ==
    LET s == c.nst[n]
    IN IF c.fail \/ s.lbuf = <<>> THEN c
       ELSE LET h  == Head(s.lbuf)
                s1 == [s EXCEPT !.lbuf = Tail(@), !.last[1] = <<h[1]>>, !.md[1] = <<h[2]>>]
                c1 == [c EXCEPT !.nst[n] = s1]
                md == FlatSeq([i \in 1 .. Len(s1.md) |-> s1.md[i][1]])
                tp == T([i \in 1 .. Len(s1.last) |-> s1.last[i][1]])
                c2 == EmitFrom(c1, n, tp, md)
                c3 == IF c2.fail THEN c2 ELSE ReleaseMd(c2, h[2], 1)
            IN ZipLatestDrain(c3, n)

\* A failure that is not the node's own marks the delivery "down" (aborted by a
\* downstream failure).  partition.update is a gen.coroutine: an exception inside it
\* does not propagate synchronously, it is carried by the returned future ("soft").
Update(cc, n, who, x, md) ==
    LET r  == UpdateBody(cc, n, who, x, md)
        me == Len(cc.dlog) + 1
        r1 == IF r.fail /\ r.dlog[me][6] = "ok" THEN [r EXCEPT !.dlog[me][6] = "down"] ELSE r
    IN IF r1.fail /\ prog[n].kind = "partition"
       THEN [r1 EXCEPT !.fail = FALSE, !.soft = TRUE]
       ELSE r1

UpdateBody(cc, n, who, x, md) ==
    LET nd == prog[n]
        k  == nd.kind
        \* the delivery is logged first; field 6 (own failure) is patched by Fail(...)
        c  == [cc EXCEPT !.dlog = Append(@, <<n, who, x, md, cc.callno, "ok">>)]
        me == Len(c.dlog)
        OwnFail(c1) == [c1 EXCEPT !.dlog[me][6] = "own"]
        s  == c.nst[n]
    IN
    CASE k = "stream" \/ k = "union" -> EmitFrom(c, n, x, md)              \* core.py:503, 1858

      [] k = "map" ->                                                         \* core.py:712-719
            LET c1 == Call(c) IN
            IF c1.fail THEN OwnFail(c1) ELSE EmitFrom(c1, n, ApplyF(nd.f, x), md)

      [] k = "starmap" ->                                                     \* core.py:873-881
            LET c1 == Call(c) IN
            IF c1.fail THEN OwnFail(c1) ELSE EmitFrom(c1, n, ApplyStar(nd.f, x), md)

      [] k = "filter" ->                                                      \* core.py:923-925
            LET c1 == Call(c) IN
            IF c1.fail THEN OwnFail(c1)
            ELSE IF Pred(nd.f, x) THEN EmitFrom(c1, n, x, md) ELSE c1

      [] k = "pluck" ->                                                       \* core.py:1893-1898
            IF nd.b1 THEN EmitFrom(c, n, T([i \in 1 .. Len(nd.lits) |-> Items(x)[nd.lits[i] + 1]]), md)
            ELSE EmitFrom(c, n, Items(x)[nd.lits[1] + 1], md)

      [] k = "flatten" -> FlattenLoop(c, n, Items(x), md)                     \* core.py:1754-1773

      [] k = "accumulate" ->                                                  \* core.py:1005-1026
            IF s = <<>> THEN
                EmitFrom([c EXCEPT !.nst[n] = <<x>>], n,
                         IF nd.b2 THEN T(<<x, x>>) ELSE x, md)
            ELSE LET c1 == Call(c) IN
                 IF c1.fail THEN OwnFail(c1)
                 ELSE LET r   == Bin(nd.f, s[1], x)
                          st  == IF nd.b1 THEN Items(r)[1] ELSE r
                          res == IF nd.b1 THEN Items(r)[2] ELSE r
                      IN EmitFrom([c1 EXCEPT !.nst[n] = <<st>>], n,
                                  IF nd.b2 THEN T(<<st, res>>) ELSE res, md)

      [] k = "slice" ->                                                       \* core.py:1065-1075
            \* nd.n = start, nd.m = end (-1: None), nd.k = step
            \* the position is taken and the counter advanced before the emission (re-entrant safe)
            LET hit == s.cnt >= nd.n /\ (s.cnt - nd.n) % nd.k = 0
                cnt == s.cnt + 1
                done == nd.m # -1 /\ cnt >= nd.m
                c0  == [c EXCEPT !.nst[n] = [cnt |-> cnt]]
                c1  == IF hit THEN EmitFrom(c0, n, x, md) ELSE c0
            IN IF c1.fail THEN c1
               ELSE [c1 EXCEPT !.downs = IF done
                                         THEN [u \in DOMAIN @ |->
                                                 IF InSeq(nd.ups, u) THEN Without(@[u], n) ELSE @[u]]
                                         ELSE @]

      [] k = "partition" ->                                                   \* core.py:1146-1165 (timeout=None)
            LET c1 == RetainMd(c, md, 1)
                c2 == IF nd.f = "none" THEN c1 ELSE Call(c1)
            IN IF c2.fail THEN OwnFail(c2)
               ELSE LET key == IF nd.f = "none" THEN I(-1) ELSE KeyF(nd.f, x)
                        has == \E i \in 1 .. Len(s) : s[i].k = key
                        s0  == IF has THEN s ELSE Append(s, [k |-> key, buf |-> <<>>, md |-> <<>>])
                        ix  == CHOOSE i \in 1 .. Len(s0) : s0[i].k = key
                        s1  == [s0 EXCEPT ![ix].buf = Append(@, x), ![ix].md = @ \o md]
                    IN IF Len(s1[ix].buf) = nd.n
                       THEN \* _flush: "yield self._emit(...)" re-raises a failure carried by a downstream
                            \* awaitable (soft) just like a synchronous one; then the release is skipped
                            LET s2 == [s1 EXCEPT ![ix].buf = <<>>, ![ix].md = <<>>]
                                c3 == EmitFrom([c2 EXCEPT !.nst[n] = s2, !.soft = FALSE], n, T(s1[ix].buf), s1[ix].md)
                            IN IF c3.fail \/ c3.soft
                               THEN [c3 EXCEPT !.soft = TRUE, !.dlog[me][6] = "down"]
                               ELSE ReleaseMd([c3 EXCEPT !.soft = c2.soft], s1[ix].md, 1)
                       ELSE [c2 EXCEPT !.nst[n] = s1]

      [] k = "partition_unique" ->                                            \* core.py:1245-1266
            \* s: sequence of [k, x, md] in dict order; nd.b1 = (keep = "last")
            LET c1 == RetainMd(c, md, 1)
                c2 == Call(c1)
            IN IF c2.fail THEN OwnFail(c2)
               ELSE LET key == KeyF(nd.f, x)
                        has == \E i \in 1 .. Len(s) : s[i].k = key
                        old == IF has THEN (CHOOSE i \in 1 .. Len(s) : s[i].k = key) ELSE 0
                        ent == [k |-> key, x |-> x, md |-> md]
                        s1  == IF nd.b1
                               THEN Append(SelectSeq(s, LAMBDA e : e.k # key), ent)
                               ELSE IF has THEN s ELSE Append(s, ent)
                        \* the metadata that is forgotten is released (fix for finding F12)
                        drop == IF ~has THEN <<>> ELSE IF nd.b1 THEN s[old].md ELSE md
                        c3  == ReleaseMd(c2, drop, 1)
                    IN IF Len(s1) = nd.n
                       THEN LET mdr == FlatSeq([i \in 1 .. Len(s1) |-> s1[i].md])
                                c4  == EmitFrom([c3 EXCEPT !.nst[n] = <<>>], n,
                                                T([i \in 1 .. Len(s1) |-> s1[i].x]), mdr)
                            IN IF c4.fail THEN c4 ELSE ReleaseMd(c4, mdr, 1)
                       ELSE [c3 EXCEPT !.nst[n] = s1]

      [] k = "sliding_window" ->                                              \* core.py:1302-1316
            \* s = [buf: last n values, md: sequence of metadata lists]; nd.b1 = return_partial
            LET c1  == RetainMd(c, md, 1)
                buf == LastN(Append(s.buf, x), nd.n)
                mdb == LastN(Append(s.md, md), nd.n)
            IN IF nd.b1 \/ Len(buf) = nd.n
               THEN LET
                        \* state as it is while _emit runs: popleft happens after
                        c2 == EmitFrom([c1 EXCEPT !.nst[n] = [buf |-> buf, md |-> mdb]], n,
                                       T(buf), FlatSeq(mdb))
                        \* the popleft after the emission acts on the deque as it is then (re-entrancy visible)
                        cur == c2.nst[n]
                    IN IF c2.fail THEN c2
                       ELSE IF Len(cur.md) = nd.n
                       THEN ReleaseMd([c2 EXCEPT !.nst[n] = [buf |-> cur.buf, md |-> Tail(cur.md)]], Head(cur.md), 1)
                       ELSE c2
               ELSE [c1 EXCEPT !.nst[n] = [buf |-> buf, md |-> mdb]]

      [] k = "unique" ->                                                      \* core.py:1824-1839
            \* nd.m = maxsize (0: None), nd.b1 = hashable; s = sequence of keys
            LET c1 == Call(c) IN
            IF c1.fail THEN OwnFail(c1)
            ELSE LET y == KeyF(nd.f, x)
                     seen == InSeq(s, y)
                 IN IF ~nd.b1
                    THEN \* list mode: most recent first, truncated to maxsize
                         LET l1 == <<y>> \o Without(s, y)
                             l2 == IF nd.m > 0 /\ Len(l1) > nd.m THEN SubSeq(l1, 1, nd.m) ELSE l1
                             c2 == [c1 EXCEPT !.nst[n] = l2]
                         IN IF seen THEN c2 ELSE EmitFrom(c2, n, x, md)
                    ELSE IF nd.m = 0
                    THEN IF seen THEN c1 ELSE EmitFrom([c1 EXCEPT !.nst[n] = Append(s, y)], n, x, md)
                    ELSE \* zict.LRU: get() on a present key refreshes it
                         IF seen THEN [c1 EXCEPT !.nst[n] = LruTouch(s, y)]
                         ELSE EmitFrom([c1 EXCEPT !.nst[n] = LruInsert(s, y, nd.m)], n, x, md)

      [] k = "collect" ->                                                     \* core.py:1930-1937
            LET c1 == RetainMd(c, md, 1)
            \* (nd.m > 0: the caller supplied a bounded container, collect(cache=deque(maxlen=m)): the oldest values fall out
            \* of it; their references stay with the node until the flush)
            IN [c1 EXCEPT !.nst[n] = [cache |-> IF nd.m > 0 /\ Len(s.cache) >= nd.m THEN Append(Tail(s.cache), x) ELSE Append(s.cache, x),
                                      md |-> s.md \o md]]

      [] k = "zip" ->                                                         \* core.py:1632-1649
            \* s[i]: deque of <<x, md>> for upstream position i
            LET c1 == RetainMd(c, md, 1)
                ix == IndexOf(nd.ups, who)
                s1 == [s EXCEPT ![ix] = Append(@, <<x, md>>)]
            IN IF Len(s1[ix]) = 1 /\ \A i \in 1 .. Len(s1) : s1[i] # <<>>
               THEN LET tup == [i \in 1 .. Len(s1) |-> s1[i][1][1]]
                        mdr == FlatSeq([i \in 1 .. Len(s1) |-> s1[i][1][2]])
                        s2  == [i \in 1 .. Len(s1) |-> Tail(s1[i])]
                        out == IF nd.lits = <<>> THEN tup ELSE PackLits(tup, nd.lits, <<>>)
                        c2  == EmitFrom([c1 EXCEPT !.nst[n] = s2], n, T(out), mdr)
                    IN IF c2.fail THEN c2 ELSE ReleaseMd(c2, mdr, 1)
               ELSE [c1 EXCEPT !.nst[n] = s1]

      [] k = "combine_latest" ->                                              \* core.py:1715-1729
            \* s = [last: seq of option, md: seq of option, missing: set of positions]
            \* nd.eon: positions (1-based) of the emit_on upstreams
            LET c1 == RetainMd(c, md, 1)
                ix == IndexOf(nd.ups, who)
                c2 == IF s.md[ix] # <<>> /\ s.md[ix][1] # <<>> THEN ReleaseMd(c1, s.md[ix][1], 1) ELSE c1
                s1 == [last |-> [s.last EXCEPT ![ix] = <<x>>],
                       md |-> [s.md EXCEPT ![ix] = <<md>>],
                       missing |-> s.missing \ {ix}]
                c3 == [c2 EXCEPT !.nst[n] = s1]
            IN IF s1.missing = {} /\ ix \in nd.eon
               THEN EmitFrom(c3, n, T([i \in 1 .. Len(s1.last) |-> s1.last[i][1]]),
                             FlatSeq([i \in 1 .. Len(s1.md) |-> s1.md[i][1]]))
               ELSE c3

      [] k = "zip_latest" ->                                                  \* core.py:1973-1992
            LET c1 == RetainMd(c, md, 1)
                ix == IndexOf(nd.ups, who)
                c2 == IF ix # 1 /\ s.md[ix] # <<>> /\ s.md[ix][1] # <<>>
                      THEN ReleaseMd(c1, s.md[ix][1], 1) ELSE c1
                s1 == [last |-> [s.last EXCEPT ![ix] = <<x>>],
                       md |-> [s.md EXCEPT ![ix] = <<md>>],
                       missing |-> s.missing \ {ix},
                       lbuf |-> IF ix = 1 THEN Append(s.lbuf, <<x, md>>) ELSE s.lbuf]
                c3 == [c2 EXCEPT !.nst[n] = s1]
            IN IF s1.missing = {} THEN ZipLatestDrain(c3, n) ELSE c3

      [] k = "sink" ->                                                        \* sinks.py:68-73
            LET c1 == Call(c) IN IF c1.fail THEN OwnFail(c1) ELSE c1

----------------------------------------------------------------------------
(* Initial node state, as the constructors leave it *)
InitState(nd) ==
    CASE nd.kind = "accumulate"       -> nd.lits          \* <<>> (no_default) or <<start>>
      [] nd.kind = "slice"            -> [cnt |-> 0]
      [] nd.kind = "partition"        -> <<>>
      [] nd.kind = "partition_unique" -> <<>>
      [] nd.kind = "sliding_window"   -> [buf |-> <<>>, md |-> <<>>]
      [] nd.kind = "unique"           -> <<>>
      [] nd.kind = "collect"          -> [cache |-> <<>>, md |-> <<>>]
      [] nd.kind = "zip"              -> [i \in 1 .. Len(nd.ups) |-> <<>>]
      [] nd.kind = "combine_latest"   -> [last |-> [i \in 1 .. Len(nd.ups) |-> <<>>],
                                          md |-> [i \in 1 .. Len(nd.ups) |-> <<>>],
                                          missing |-> 1 .. Len(nd.ups)]
      [] nd.kind = "zip_latest"       -> [last |-> [i \in 1 .. Len(nd.ups) |-> <<>>],
                                          md |-> [i \in 1 .. Len(nd.ups) |-> <<>>],
                                          missing |-> 1 .. Len(nd.ups),
                                          lbuf |-> <<>>]
      [] OTHER -> <<>>

\* children of u in attachment order: nodes constructed after u attach themselves in construction
\* order; feedback edges (child index <= u) are connect()-ed after construction, in child order.
\* slice(end=0) detaches itself in its constructor.
InitDowns(p) ==
    [u \in 1 .. Len(p) |->
        LET idx == [i \in 1 .. Len(p) |-> i]
            live(d) == InSeq(p[d].ups, u) /\ ~(p[d].kind = "slice" /\ p[d].m = 0)
        IN SelectSeq(idx, LAMBDA d : d > u /\ live(d)) \o SelectSeq(idx, LAMBDA d : d <= u /\ live(d))]

Entries(p) == {n \in 1 .. Len(p) : p[n].kind = "stream" /\ p[n].ups = <<>>}

Ctx(failAt) == [nst |-> nst, downs |-> downs, rc |-> rc, cbs |-> cbs, dlog |-> dlog, elog |-> elog,
                ncall |-> 0, failAt |-> failAt, fail |-> FALSE, soft |-> FALSE,
                callno |-> calls + 1]

Commit(c) ==
    /\ nst' = c.nst /\ downs' = c.downs /\ rc' = c.rc /\ cbs' = c.cbs
    /\ dlog' = c.dlog /\ elog' = c.elog
    /\ calls' = calls + 1
    /\ failed' = IF c.fail \/ c.soft THEN failed \cup {calls + 1} ELSE failed

Init ==
    /\ prog \in Programs
    /\ nst = [n \in 1 .. Len(prog) |-> InitState(prog[n])]
    /\ downs = InitDowns(prog)
    /\ rc = [t \in Tags |-> 0]
    /\ cbs = <<>> /\ dlog = <<>> /\ elog = <<>> /\ flushes = <<>>
    /\ calls = 0 /\ failed = {} /\ nfail = 0

\* source.emit(x, metadata=md) on entry point e; failAt = which user-function invocations raise
EmitAt(e, x, md, failAt) ==
    /\ Commit(EmitFrom(Ctx(failAt), e, x, md))
    /\ UNCHANGED <<prog, flushes>>
    /\ nfail' = nfail + Cardinality(failAt)

\* collect.flush() (core.py:1939-1945)
Flush(n, failAt) ==
    LET s  == nst[n]
        c0 == Ctx(failAt)
        c1 == EmitFrom(c0, n, T(s.cache), s.md)
        c2 == IF c1.fail THEN c1
              ELSE [ReleaseMd(c1, s.md, 1) EXCEPT !.nst[n] = [cache |-> <<>>, md |-> <<>>]]
    IN /\ Commit(c2)
       /\ flushes' = Append(flushes, <<n, Len(dlog), calls + 1>>)
       /\ nfail' = nfail + Cardinality(failAt)
       /\ UNCHANGED prog

FailSets == IF nfail < MaxFail THEN {{}} \cup {{k} : k \in 1 .. 3} ELSE {{}}

Next ==
    /\ calls < MaxEmits
    /\ \/ \E e \in Entries(prog), v \in Vals, ch \in MdChoices, fa \in FailSets :
             EmitAt(e, I(v), MdOf(ch, calls), fa)
       \/ \E n \in Nodes, fa \in FailSets : prog[n].kind = "collect" /\ Flush(n, fa)

Spec == Init /\ [][Next]_vars

----------------------------------------------------------------------------
(***************************************************************************)
(* CONTRACTS: the documented list-level meaning of every node, stated over *)
(* the histories only.  In(n): what was offered to n (own failures         *)
(* removed, as C16 demands); Out(n): what n emitted, as <<x, md>> pairs.   *)
(***************************************************************************)

In(n)  == SelectSeq(dlog, LAMBDA d : d[1] = n /\ d[6] # "own")
Out(n) == LET es == SelectSeq(elog, LAMBDA e : e[1] = n)
          IN [i \in 1 .. Len(es) |-> <<es[i][2], es[i][3]>>]
X(d)  == d[3]
MD(d) == d[4]
Who(d) == d[2]
\* cut short by a failure further downstream (a delivery, or a flush of a collect node)
Aborted(n) == \/ \E i \in 1 .. Len(dlog) : dlog[i][1] = n /\ dlog[i][6] = "down"
              \/ \E i \in 1 .. Len(flushes) : flushes[i][1] = n /\ flushes[i][3] \in failed

RECURSIVE ScanC(_, _, _)      \* accumulate: nd, state (option), remaining inputs
ScanC(nd, st, ins) ==
    IF ins = <<>> THEN <<>>
    ELSE LET d == Head(ins) IN
         IF st = <<>> THEN <<<<IF nd.b2 THEN T(<<X(d), X(d)>>) ELSE X(d), MD(d)>>>> \o ScanC(nd, <<X(d)>>, Tail(ins))
         ELSE LET r   == Bin(nd.f, st[1], X(d))
                  s2  == IF nd.b1 THEN Items(r)[1] ELSE r
                  res == IF nd.b1 THEN Items(r)[2] ELSE r
              IN <<<<IF nd.b2 THEN T(<<s2, res>>) ELSE res, MD(d)>>>> \o ScanC(nd, <<s2>>, Tail(ins))

KeyOfPart(nd, d) == IF nd.f = "none" THEN I(-1) ELSE KeyF(nd.f, X(d))
\* the inputs among ins[1..i] having the same key as ins[i]
SameKeyUpTo(nd, ins, i) == SelectSeq(SubSeq(ins, 1, i), LAMBDA d : KeyOfPart(nd, d) = KeyOfPart(nd, ins[i]))

PartitionC(nd, ins) ==
    LET hits == SelectSeq([i \in 1 .. Len(ins) |-> i],
                          LAMBDA i : Len(SameKeyUpTo(nd, ins, i)) % nd.n = 0)
    IN [j \in 1 .. Len(hits) |->
          LET grp == LastN(SameKeyUpTo(nd, ins, hits[j]), nd.n)
          IN <<T([q \in 1 .. Len(grp) |-> X(grp[q])]), FlatSeq([q \in 1 .. Len(grp) |-> MD(grp[q])])>>]
PartitionHeld(nd, ins) ==
    LET keys == {KeyOfPart(nd, ins[i]) : i \in 1 .. Len(ins)}
        rem(i) == LET same == SameKeyUpTo(nd, ins, i) IN
                  \* ins[i] is held iff it lies after the last complete chunk of its key
                  LET tot == Len(SelectSeq(ins, LAMBDA d : KeyOfPart(nd, d) = KeyOfPart(nd, ins[i])))
                  IN Len(same) > tot - (tot % nd.n)
    IN FlatSeq([i \in 1 .. Len(ins) |-> IF rem(i) THEN MD(ins[i]) ELSE <<>>])

\* partition_unique: greedy segments with n distinct keys; keep first / last occurrence
DistinctKeys(nd, seg) == {KeyF(nd.f, X(seg[i])) : i \in 1 .. Len(seg)}
KeptOf(nd, seg) ==      \* the kept elements of a segment, in emission order
    SelectSeq([i \in 1 .. Len(seg) |-> i],
              LAMBDA i : IF nd.b1
                         THEN \A j \in (i + 1) .. Len(seg) : KeyF(nd.f, X(seg[j])) # KeyF(nd.f, X(seg[i]))
                         ELSE \A j \in 1 .. (i - 1) : KeyF(nd.f, X(seg[j])) # KeyF(nd.f, X(seg[i])))
RECURSIVE PUniqueC(_, _, _)   \* nd, remaining inputs, current segment
PUniqueC(nd, ins, seg) ==
    IF ins = <<>> THEN <<>>
    ELSE LET seg1 == Append(seg, Head(ins)) IN
         IF Cardinality(DistinctKeys(nd, seg1)) = nd.n
         THEN LET kp == KeptOf(nd, seg1)
              IN <<<<T([q \in 1 .. Len(kp) |-> X(seg1[kp[q]])]),
                     FlatSeq([q \in 1 .. Len(kp) |-> MD(seg1[kp[q]])])>>>> \o PUniqueC(nd, Tail(ins), <<>>)
         ELSE PUniqueC(nd, Tail(ins), seg1)
RECURSIVE PUniqueSeg(_, _, _)  \* the unfinished segment
PUniqueSeg(nd, ins, seg) ==
    IF ins = <<>> THEN seg
    ELSE LET seg1 == Append(seg, Head(ins)) IN
         IF Cardinality(DistinctKeys(nd, seg1)) = nd.n THEN PUniqueSeg(nd, Tail(ins), <<>>)
         ELSE PUniqueSeg(nd, Tail(ins), seg1)
PUniqueHeld(nd, ins) == LET seg == PUniqueSeg(nd, ins, <<>>)
                            kp == KeptOf(nd, seg)
                        IN FlatSeq([q \in 1 .. Len(kp) |-> MD(seg[kp[q]])])

SlidingC(nd, ins) ==
    LET hits == SelectSeq([i \in 1 .. Len(ins) |-> i], LAMBDA i : nd.b1 \/ i >= nd.n)
    IN [j \in 1 .. Len(hits) |->
          LET w == LastN(SubSeq(ins, 1, hits[j]), nd.n)
          IN <<T([q \in 1 .. Len(w) |-> X(w[q])]), FlatSeq([q \in 1 .. Len(w) |-> MD(w[q])])>>]
SlidingHeld(nd, ins) == LET w == LastN(ins, nd.n - 1) IN FlatSeq([q \in 1 .. Len(w) |-> MD(w[q])])

\* unique: recency list semantics (oldest -> newest), as documented for maxsize ("LRU")
RECURSIVE UniqueC(_, _, _)
UniqueC(nd, ins, mem) ==
    IF ins = <<>> THEN <<>>
    ELSE LET d == Head(ins)
             y == KeyF(nd.f, X(d))
             seen == InSeq(mem, y)
             mem1 == IF nd.m = 0 THEN (IF seen THEN mem ELSE Append(mem, y))
                     ELSE IF seen THEN Append(Without(mem, y), y)
                     ELSE LastN(Append(mem, y), nd.m)
         IN (IF seen THEN <<>> ELSE <<<<X(d), MD(d)>>>>) \o UniqueC(nd, Tail(ins), mem1)

FlattenC(ins) ==
    FlatSeq([i \in 1 .. Len(ins) |->
               LET L == Items(X(ins[i]))
               IN [j \in 1 .. Len(L) |-> <<L[j], IF j = Len(L) THEN MD(ins[i]) ELSE <<>>>>]])

SliceC(nd, ins) ==
    LET hits == SelectSeq([i \in 1 .. Len(ins) |-> i],
                          LAMBDA i : (i - 1) >= nd.n /\ ((i - 1) - nd.n) % nd.k = 0
                                     /\ (nd.m = -1 \/ (i - 1) < nd.m))
    IN [j \in 1 .. Len(hits) |-> <<X(ins[hits[j]]), MD(ins[hits[j]])>>]

\* collect: one output per flush = the inputs since the previous flush
CollectC(n) ==
    LET fl == SelectSeq(flushes, LAMBDA f : f[1] = n)
        \* number of inputs of n among the first k deliveries
        cnt(k) == Len(SelectSeq(SubSeq(dlog, 1, k), LAMBDA d : d[1] = n))
        ins == In(n)
    IN [j \in 1 .. Len(fl) |->
          LET lo == IF j = 1 THEN 0 ELSE cnt(fl[j - 1][2])
              hi == cnt(fl[j][2])
              seg == SubSeq(ins, lo + 1, hi)
              m == prog[n].m
              dseg == IF m > 0 /\ Len(seg) > m THEN SubSeq(seg, Len(seg) - m + 1, Len(seg)) ELSE seg
          IN <<T([q \in 1 .. Len(dseg) |-> X(dseg[q])]), FlatSeq([q \in 1 .. Len(seg) |-> MD(seg[q])])>>]
CollectHeld(n) ==
    LET fl == SelectSeq(flushes, LAMBDA f : f[1] = n)
        cnt(k) == Len(SelectSeq(SubSeq(dlog, 1, k), LAMBDA d : d[1] = n))
        ins == In(n)
        lo == IF fl = <<>> THEN 0 ELSE cnt(fl[Len(fl)][2])
        seg == SubSeq(ins, lo + 1, Len(ins))
    IN FlatSeq([q \in 1 .. Len(seg) |-> MD(seg[q])])

From(ins, u) == SelectSeq(ins, LAMBDA d : Who(d) = u)
MinLen(nd, ins) == LET ls == {Len(From(ins, nd.ups[i])) : i \in 1 .. Len(nd.ups)}
                   IN CHOOSE m \in ls : \A l \in ls : m <= l
ZipC(nd, ins) ==
    [j \in 1 .. MinLen(nd, ins) |->
        LET tup == [i \in 1 .. Len(nd.ups) |-> X(From(ins, nd.ups[i])[j])]
        IN <<T(IF nd.lits = <<>> THEN tup ELSE PackLits(tup, nd.lits, <<>>)),
             FlatSeq([i \in 1 .. Len(nd.ups) |-> MD(From(ins, nd.ups[i])[j])])>>]
ZipHeld(nd, ins) ==
    FlatSeq([i \in 1 .. Len(nd.ups) |->
               LET f == From(ins, nd.ups[i])
                   rest == SubSeq(f, MinLen(nd, ins) + 1, Len(f))
               IN FlatSeq([q \in 1 .. Len(rest) |-> MD(rest[q])])])

\* latest input from u among the first i inputs (option)
LatestOf(ins, u, i) == LET f == From(SubSeq(ins, 1, i), u) IN IF f = <<>> THEN <<>> ELSE <<f[Len(f)]>>
AllSeen(nd, ins, i) == \A q \in 1 .. Len(nd.ups) : LatestOf(ins, nd.ups[q], i) # <<>>
CombineC(nd, ins) ==
    LET hits == SelectSeq([i \in 1 .. Len(ins) |-> i],
                          LAMBDA i : AllSeen(nd, ins, i)
                                     /\ \E q \in nd.eon : nd.ups[q] = Who(ins[i]))
    IN [j \in 1 .. Len(hits) |->
          <<T([q \in 1 .. Len(nd.ups) |-> X(LatestOf(ins, nd.ups[q], hits[j])[1])]),
            FlatSeq([q \in 1 .. Len(nd.ups) |-> MD(LatestOf(ins, nd.ups[q], hits[j])[1])])>>]
CombineHeld(nd, ins) ==
    FlatSeq([q \in 1 .. Len(nd.ups) |->
               LET l == LatestOf(ins, nd.ups[q], Len(ins)) IN IF l = <<>> THEN <<>> ELSE MD(l[1])])

\* zip_latest: every lossless element exactly once, paired with the latest other values at the
\* moment it can be emitted (its arrival, or the first moment all inputs have been seen)
ZipLatestC(nd, ins) ==
    LET ls == SelectSeq([i \in 1 .. Len(ins) |-> i], LAMBDA i : Who(ins[i]) = nd.ups[1])
        ready == SelectSeq(ls, LAMBDA i : AllSeen(nd, ins, Len(ins)))
        first == CHOOSE i \in 1 .. Len(ins) : AllSeen(nd, ins, i) /\ \A j \in 1 .. (i - 1) : ~AllSeen(nd, ins, j)
    IN [j \in 1 .. Len(ready) |->
          LET at == IF ready[j] >= first THEN ready[j] ELSE first
          IN <<T([q \in 1 .. Len(nd.ups) |->
                    IF q = 1 THEN X(ins[ready[j]]) ELSE X(LatestOf(ins, nd.ups[q], at)[1])]),
               FlatSeq([q \in 1 .. Len(nd.ups) |->
                    IF q = 1 THEN MD(ins[ready[j]]) ELSE MD(LatestOf(ins, nd.ups[q], at)[1])])>>]
ZipLatestHeld(nd, ins) ==
    LET others == FlatSeq([q \in 1 .. (Len(nd.ups) - 1) |->
                     LET l == LatestOf(ins, nd.ups[q + 1], Len(ins)) IN IF l = <<>> THEN <<>> ELSE MD(l[1])])
        lossless == From(ins, nd.ups[1])
    IN others \o (IF AllSeen(nd, ins, Len(ins)) THEN <<>>
                  ELSE FlatSeq([q \in 1 .. Len(lossless) |-> MD(lossless[q])]))

Expected(n) ==
    LET nd == prog[n]
        k == nd.kind
        ins == In(n)
    IN CASE k = "stream" \/ k = "union" -> [i \in 1 .. Len(ins) |-> <<X(ins[i]), MD(ins[i])>>]
         [] k = "map"     -> [i \in 1 .. Len(ins) |-> <<ApplyF(nd.f, X(ins[i])), MD(ins[i])>>]
         [] k = "starmap" -> [i \in 1 .. Len(ins) |-> <<ApplyStar(nd.f, X(ins[i])), MD(ins[i])>>]
         [] k = "pluck"   -> [i \in 1 .. Len(ins) |->
                                <<IF nd.b1 THEN T([q \in 1 .. Len(nd.lits) |-> Items(X(ins[i]))[nd.lits[q] + 1]])
                                  ELSE Items(X(ins[i]))[nd.lits[1] + 1], MD(ins[i])>>]
         [] k = "filter"  -> LET sel == SelectSeq(ins, LAMBDA d : Pred(nd.f, X(d)))
                             IN [i \in 1 .. Len(sel) |-> <<X(sel[i]), MD(sel[i])>>]
         [] k = "flatten" -> FlattenC(ins)
         [] k = "accumulate" -> ScanC(nd, nd.lits, ins)
         [] k = "slice" -> SliceC(nd, ins)
         [] k = "partition" -> PartitionC(nd, ins)
         [] k = "partition_unique" -> PUniqueC(nd, ins, <<>>)
         [] k = "sliding_window" -> SlidingC(nd, ins)
         [] k = "unique" -> UniqueC(nd, ins, <<>>)
         [] k = "collect" -> CollectC(n)
         [] k = "zip" -> ZipC(nd, ins)
         [] k = "combine_latest" -> CombineC(nd, ins)
         [] k = "zip_latest" -> ZipLatestC(nd, ins)
         [] k = "sink" -> <<>>

HeldMd(n) ==
    LET nd == prog[n]
        k == nd.kind
        ins == In(n)
    IN CASE k = "partition" -> PartitionHeld(nd, ins)
         [] k = "partition_unique" -> PUniqueHeld(nd, ins)
         [] k = "sliding_window" -> SlidingHeld(nd, ins)
         [] k = "collect" -> CollectHeld(n)
         [] k = "zip" -> ZipHeld(nd, ins)
         [] k = "combine_latest" -> CombineHeld(nd, ins)
         [] k = "zip_latest" -> ZipLatestHeld(nd, ins)
         [] OTHER -> <<>>

IsEntry(n) == prog[n].kind = "stream" /\ prog[n].ups = <<>>

\* C01 / C10 / C16: every node computes its list-level meaning (data and metadata),
\* with its own failed offers removed; nodes cut short by a downstream failure are exempt
NodeContracts == \A n \in Nodes : (~IsEntry(n) /\ ~Aborted(n)) => Out(n) = Expected(n)

Feedback == \E n \in Nodes : \E i \in 1 .. Len(prog[n].ups) : prog[n].ups[i] > n

\* C01: every branch sees every element its parent emits (slice(end) stops listening)
EdgeExact ==
    failed = {} =>
      \A u \in Nodes : \A d \in Nodes :
         InSeq(prog[d].ups, u) =>
            LET got == SelectSeq(dlog, LAMBDA e : e[1] = d /\ e[2] = u)
                g2  == [i \in 1 .. Len(got) |-> <<got[i][3], got[i][4]>>]
                o   == Out(u)
            IN IF prog[d].kind = "slice" /\ prog[d].m # -1
               THEN g2 = SubSeq(o, 1, IF Len(o) < prog[d].m THEN Len(o) ELSE prog[d].m)
               ELSE IF Feedback
               THEN \* re-entrant emission (feedback edge): later siblings are served while the
                    \* recursion unwinds, so only "each element exactly once" is claimed
                    Len(g2) = Len(o) /\ \A i \in 1 .. Len(o) : CountIn(g2, o[i]) = CountIn(o, o[i])
               ELSE g2 = o

\* C01: siblings are served in attachment order, depth first: the deliveries made by u,
\* split into maximal increasing runs of child index, are one run per emission
RECURSIVE Runs(_)
Runs(s) == IF Len(s) <= 1 THEN Len(s)
           ELSE (IF s[1] >= s[2] THEN 1 ELSE 0) + Runs(Tail(s))
SiblingOrder ==
    (failed = {} /\ ~Feedback) =>
      \A u \in Nodes :
         LET dst == SelectSeq(dlog, LAMBDA e : e[2] = u)
         IN Runs([i \in 1 .. Len(dst) |-> dst[i][1]]) <= Len(Out(u))

\* C10: metadata is flat: every delivered metadata is a sequence of tags
MetadataFlat == \A i \in 1 .. Len(dlog) : \A j \in 1 .. Len(dlog[i][4]) : dlog[i][4][j] \in Tags

\* tags that were part of a delivery that raised
FailedTags == {t \in Tags : \E i \in 1 .. Len(dlog) : dlog[i][6] # "ok" /\ InSeq(dlog[i][4], t)}
\* tags that passed through a node whose processing was cut short by a downstream failure: what that
\* node still holds is not described by its list-level contract any more
AbortedTags == {t \in Tags : \E i \in 1 .. Len(dlog) : Aborted(dlog[i][1]) /\ InSeq(dlog[i][4], t)}
UsedTags == {t \in RefTags : \E i \in 1 .. Len(dlog) : InSeq(dlog[i][4], t)}

RECURSIVE SumHeld(_, _)
SumHeld(n, t) == IF n = 0 THEN 0 ELSE CountIn(HeldMd(n), t) + SumHeld(n - 1, t)

\* C05 (every state of SyncFlow is quiescent): count == number of legitimate holders.
\* Programs with a feedback edge are exempt: metadata travels round the cycle, so derived elements
\* carry the tags of their ancestors several times and the holder multiset is not list-level any more.
RcBalanced == ~Feedback => \A t \in (RefTags \ FailedTags) \ AbortedTags : rc[t] = SumHeld(Len(prog), t)
RcNonNegative == \A t \in RefTags : rc[t] >= 0
\* C05: callback scheduled exactly once, exactly for the elements that have left
CbExact == ~Feedback => \A t \in (UsedTags \ FailedTags) \ AbortedTags :
              /\ CountIn(cbs, t) <= 1
              /\ (CountIn(cbs, t) = 1) <=> (rc[t] = 0)
\* C04 (synchronous part): never signalled while still held
CbSafe == ~Feedback => \A t \in RefTags \ AbortedTags : InSeq(cbs, t) => SumHeld(Len(prog), t) = 0
\* C16: a failed element is never checkpointed
NeverCheckpointFailed == \A t \in FailedTags : ~InSeq(cbs, t)
\* C05: a count that reached zero never rises again
NoResurrection == [][\A t \in RefTags : (InSeq(cbs, t) => rc'[t] <= 0)]_vars

\* C16: the call raised iff some user function of that call was made to fail
RaisedIffInjected ==
    \A k \in 1 .. calls : (k \in failed) <=> \E i \in 1 .. Len(dlog) : dlog[i][5] = k /\ dlog[i][6] = "own"

============================================================================
