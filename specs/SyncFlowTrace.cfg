SPECIFICATION TraceSpec
CONSTANTS
  Programs <- EmptySet
  Vals <- TraceVals
  MaxEmits = 8
  MdChoices <- TraceMd
  MaxFail = 0
CHECK_DEADLOCK FALSE
