--------------------------- MODULE SyncFlowTrace ---------------------------
(***************************************************************************)
(* Trace validation for SyncFlow: every recorded execution of the real     *)
(* streamz classes (harness/drivers/sync_driver.py) must be a behaviour of *)
(* SyncFlow, with every logged projection equal to the specification's     *)
(* state after the same public call; the CONTRACTS invariants of SyncFlow  *)
(* are evaluated in every state of every trace.                            *)
(*                                                                         *)
(* One TLC run validates a whole file of traces (tid chooses the trace).   *)
(* Verdicts are total: each trace prints ACCEPT or REJECT with the step    *)
(* and the first clause that differs.                                      *)
(***************************************************************************)
EXTENDS SyncFlow, Json, IOUtils

Traces == JsonDeserialize(IOEnv.TRACE_FILE)

VARIABLES tid, l, bad
tvars == <<vars, tid, l, bad>>

ToSet(s) == {s[i] : i \in DOMAIN s}
FixProg(p) == [i \in DOMAIN p |-> [p[i] EXCEPT !.eon = ToSet(@)]]

\* logged node state -> specification shape (JSON has no sets)
FixState(nd, o) ==
    IF nd.kind \in {"combine_latest", "zip_latest"} THEN [o EXCEPT !.missing = ToSet(@)] ELSE o

TraceInit ==
    /\ tid \in 1 .. Len(Traces)
    /\ prog = FixProg(Traces[tid].prog)
    /\ nst = [n \in 1 .. Len(prog) |-> InitState(prog[n])]
    /\ downs = InitDowns(prog)
    /\ rc = [t \in Tags |-> 0]
    /\ cbs = <<>> /\ dlog = <<>> /\ elog = <<>> /\ flushes = <<>>
    /\ calls = 0 /\ failed = {} /\ nfail = 0
    /\ l = 1 /\ bad = <<>>

Steps == Traces[tid].steps

\* the specification's context after the logged public call
After(st) ==
    LET fa == ToSet(st.failAt)
    IN IF st.ev = "emit" THEN EmitFrom(Ctx(fa), st.e, st.x, st.md)
       ELSE LET s  == nst[st.e]
                c1 == EmitFrom(Ctx(fa), st.e, T(s.cache), s.md)
            IN IF c1.fail THEN c1
               ELSE [ReleaseMd(c1, s.md, 1) EXCEPT !.nst[st.e] = [cache |-> <<>>, md |-> <<>>]]

Strip(dl, from) == [i \in 1 .. (Len(dl) - from) |-> SubSeq(dl[from + i], 1, 5)]
New(sq, from) == SubSeq(sq, from + 1, Len(sq))

\* first clause on which the logged step differs from the specification (with the value the
\* specification expects), or <<"">> if none
\* what the caller sees: emit() collects the awaitables that come back and so also gets a failure carried by one of them
\* (c.soft: a generator-based coroutine node such as partition wraps what happens below it in a Future); collect.flush()
\* drops what _emit returns, so only a failure raised synchronously reaches its caller (C16 speaks of emit)
Raises(st, c) == IF st.ev = "flush" THEN c.fail ELSE c.fail \/ c.soft
Verdict(st, c) ==
    IF Raises(st, c) # st.raised THEN <<"raised", Raises(st, c)>>
    ELSE IF Strip(c.dlog, Len(dlog)) # st.dlog THEN <<"deliveries", Strip(c.dlog, Len(dlog))>>
    ELSE IF New(c.elog, Len(elog)) # st.elog THEN <<"emissions", New(c.elog, Len(elog))>>
    \* (st.opq: nodes whose private state the adapter could not read -- not compared)
    ELSE IF \E n \in 1 .. Len(prog) : n \notin ToSet(st.opq) /\ c.nst[n] # FixState(prog[n], st.nst[n]) THEN <<"node_state", c.nst>>
    ELSE IF c.downs # st.downs THEN <<"links", c.downs>>
    ELSE IF \E t \in Tags : c.rc[t] # st.rc[t + 1] THEN <<"refcounts", [i \in 1 .. Len(st.rc) |-> c.rc[i - 1]]>>
    ELSE IF c.cbs # st.cbs THEN <<"callbacks", c.cbs>>
    ELSE <<"">>

\* every clause on which the logged step differs (the validation goes on from the specification's own state after a
\* mismatch, so that all the ways in which a run deviates are reported, not only the first)
NoMd(dl) == [i \in 1 .. Len(dl) |-> <<dl[i][1], dl[i][2], dl[i][3]>>]
NoMdE(el) == [i \in 1 .. Len(el) |-> <<el[i][1], el[i][2]>>]
AllClauses(st, c) ==
    (IF Raises(st, c) # st.raised THEN <<"raised">> ELSE <<>>)
    \o (IF NoMd(Strip(c.dlog, Len(dlog))) # NoMd(st.dlog) THEN <<"deliveries">>
        ELSE IF Strip(c.dlog, Len(dlog)) # st.dlog THEN <<"deliveries_md">> ELSE <<>>)
    \o (IF NoMdE(New(c.elog, Len(elog))) # NoMdE(st.elog) THEN <<"emissions">>
        ELSE IF New(c.elog, Len(elog)) # st.elog THEN <<"emissions_md">> ELSE <<>>)
    \o (IF \E n \in 1 .. Len(prog) : n \notin ToSet(st.opq) /\ c.nst[n] # FixState(prog[n], st.nst[n]) THEN <<"node_state">> ELSE <<>>)
    \o (IF c.downs # st.downs THEN <<"links">> ELSE <<>>)
    \o (IF \E t \in Tags : c.rc[t] # st.rc[t + 1] THEN <<"refcounts">> ELSE <<>>)
    \o (IF c.cbs # st.cbs THEN <<"callbacks">> ELSE <<>>)
    \* a completion callback the real run has fired and the specification has not (yet): the element is still held somewhere
    \o (IF \E i \in 1 .. Len(st.cbs) : \A j \in 1 .. Len(c.cbs) : c.cbs[j] # st.cbs[i] THEN <<"callbacks_early">> ELSE <<>>)

\* the property invariants of SyncFlow, evaluated in the current state; "" if all hold
InvVerdict ==
    IF ~NodeContracts THEN "NodeContracts"
    ELSE IF ~EdgeExact THEN "EdgeExact"
    ELSE IF ~SiblingOrder THEN "SiblingOrder"
    ELSE IF ~MetadataFlat THEN "MetadataFlat"
    ELSE IF ~RcBalanced THEN "RcBalanced"
    ELSE IF ~RcNonNegative THEN "RcNonNegative"
    ELSE IF ~CbExact THEN "CbExact"
    ELSE IF ~CbSafe THEN "CbSafe"
    ELSE IF ~NeverCheckpointFailed THEN "NeverCheckpointFailed"
    ELSE IF ~RaisedIffInjected THEN "RaisedIffInjected"
    ELSE ""

\* One step: first the invariants of the state reached so far, then the next logged call.
\* After the last call one more step evaluates the invariants of the final state.
TraceNext ==
    /\ l <= Len(Steps) + 1
    /\ LET iv == InvVerdict IN
       IF iv # "" /\ bad = <<>> THEN
          /\ PrintT(<<"REJECT", Traces[tid].id, l - 1, iv>>)
          /\ bad' = <<l - 1, iv>>
          /\ UNCHANGED vars
       ELSE IF l = Len(Steps) + 1 THEN
          /\ ((bad # <<>>) \/ PrintT(<<"ACCEPT", Traces[tid].id>>))
          /\ bad' = bad
          /\ UNCHANGED vars
       ELSE
          LET st == Steps[l]
              c  == After(st)
              vv == Verdict(st, c)
              v0 == vv[1]
              v  == IF v0 = "" /\ \E t \in RefTags : InSeq(cbs, t) /\ c.rc[t] > 0
                    THEN "NoResurrection" ELSE v0
          IN /\ Commit(c)
             /\ flushes' = IF st.ev = "flush" THEN Append(flushes, <<st.e, Len(dlog), calls + 1>>) ELSE flushes
             /\ nfail' = nfail + Len(st.failAt)
             /\ bad' = IF v = "" THEN bad ELSE <<l, v>>
             /\ IF v # ""
                THEN (PrintT(<<"REJECT", Traces[tid].id, l, v>>)
                      /\ ((bad # <<>>) \/ PrintT(<<"EXPECTED", Traces[tid].id, ToJson(vv)>>))
                      /\ PrintT(<<"CLAUSES", Traces[tid].id, l, AllClauses(st, c)>>))
                ELSE TRUE
             /\ UNCHANGED prog
    /\ l' = l + 1
    /\ UNCHANGED tid

TraceSpec == TraceInit /\ [][TraceNext]_tvars

\* NoResurrection on traces
TraceNoResurrection == [][\A t \in RefTags : (InSeq(cbs, t) => rc'[t] <= 0)]_tvars

EmptySet == {}
TraceVals == 0 .. 2
TraceMd == {"none"}
=============================================================================
