------------------------------ MODULE TextFile ------------------------------
(***************************************************************************)
(* streamz.sources.from_textfile (sources.py:116-170): one polling cycle   *)
(*     data = file.read()              (everything appended since last time)*)
(*     if data: buffer += data                                             *)
(*              if delimiter in buffer:                                    *)
(*                  parts = buffer.split(delimiter); buffer = parts.pop()  *)
(*                  for part in parts: await emit(part + delimiter)        *)
(*     else: await sleep(poll_interval)                                    *)
(* The file grows by Write(chunk) for arbitrary chunks (records split      *)
(* across reads, several records per read, a multi-character delimiter     *)
(* split across reads); polls fall anywhere between the writes.            *)
(* Characters are small integers; Delim is a non-empty sequence of them.   *)
(***************************************************************************)
EXTENDS Integers, Sequences, FiniteSets, TLC

CONSTANTS Alphabet, Delim, MaxLen, Initial, FromEnd,
          Burst     \* FALSE: the tree (each record's emit is awaited before the next one); TRUE: the records of one read are
                    \* handed on back to back and awaited together (refuted by OneAtATime)

VARIABLES file, pos, buffer, pending, emitted,
          inflight, \* records handed to a consumer that returned an awaitable and has not finished: the source awaits it
                    \* before it emits the next record or reads again (sources.py:179-180) -- back-pressure, C03
          on       \* the source has been started and not stopped since: only then does a new polling cycle (a read) begin;
                   \* the records of the cycle in progress are still emitted after a stop
vars == <<file, pos, buffer, pending, emitted, inflight, on>>

L == Len(Delim)
StartPos == IF FromEnd THEN Len(Initial) ELSE 0

Init == /\ file = Initial /\ pos = StartPos /\ buffer = <<>> /\ pending = <<>> /\ emitted = <<>> /\ inflight = 0 /\ on = FALSE

\* position of the leftmost occurrence of Delim in s (0: none) -- str.split / `in` semantics
Occurs(s, i) == i + L - 1 <= Len(s) /\ SubSeq(s, i, i + L - 1) = Delim
Find(s) == IF \E i \in 1 .. Len(s) : Occurs(s, i)
           THEN CHOOSE i \in 1 .. Len(s) : Occurs(s, i) /\ \A j \in 1 .. (i - 1) : ~Occurs(s, j)
           ELSE 0

RECURSIVE Records(_), Rest(_)
Records(s) == LET i == Find(s) IN
              IF i = 0 THEN <<>> ELSE <<SubSeq(s, 1, i + L - 1)>> \o Records(SubSeq(s, i + L, Len(s)))
Rest(s) == LET i == Find(s) IN IF i = 0 THEN s ELSE Rest(SubSeq(s, i + L, Len(s)))

Write(chunk) ==
    /\ Len(file) + Len(chunk) <= MaxLen
    /\ file' = file \o chunk
    /\ UNCHANGED <<pos, buffer, pending, emitted, inflight, on>>

\* one read(): everything not yet read is appended to the buffer and split
Poll ==
    /\ on /\ pending = <<>> /\ inflight = 0 /\ pos < Len(file)
    /\ LET b == buffer \o SubSeq(file, pos + 1, Len(file)) IN
       /\ pending' = Records(b)
       /\ buffer' = Rest(b)
    /\ pos' = Len(file)
    /\ UNCHANGED <<file, emitted, inflight, on>>

\* the records of one read are emitted one after the other, each awaited: its consumer finishes at once (synchronous: async = FALSE)
\* or later
EmitRec(async) ==
    /\ pending # <<>> /\ (Burst \/ inflight = 0)
    /\ emitted' = Append(emitted, Head(pending)) /\ pending' = Tail(pending)
    /\ inflight' = IF async THEN inflight + 1 ELSE inflight
    /\ UNCHANGED <<file, pos, buffer, on>>
ConsumerDone == inflight > 0 /\ inflight' = inflight - 1 /\ UNCHANGED <<file, pos, buffer, pending, emitted, on>>

Chunks == {<<a>> : a \in Alphabet} \cup {<<a, b>> : a \in Alphabet, b \in Alphabet}
Start == on' = TRUE /\ UNCHANGED <<file, pos, buffer, pending, emitted, inflight>>
Stop == on' = FALSE /\ UNCHANGED <<file, pos, buffer, pending, emitted, inflight>>
Next == (\E c \in Chunks : Write(c)) \/ Poll \/ (\E a \in BOOLEAN : EmitRec(a)) \/ ConsumerDone \/ Start \/ Stop
Spec == Init /\ [][Next]_vars

----------------------------------------------------------------------------
RECURSIVE Concat(_)
Concat(ss) == IF ss = <<>> THEN <<>> ELSE Head(ss) \o Concat(Tail(ss))

\* C17: nothing lost, duplicated, reordered or modified: what was emitted, what is about to be emitted and
\* the held-back tail are exactly the text read so far
Conservation == Concat(emitted) \o Concat(pending) \o buffer = SubSeq(file, StartPos + 1, pos)
\* every emitted record is one delimiter-terminated record: the delimiter occurs exactly at its end
WholeRecords == \A i \in 1 .. Len(emitted) : Find(emitted[i]) = Len(emitted[i]) - L + 1
\* an unterminated tail is held back, and only that
TailHeld == Find(buffer) = 0
\* hence: once everything has been read and emitted, the output is exactly the records of the text
\* C03: the source does not hand on a record while the consumer of the previous one is still busy
OneAtATime == inflight <= 1
\* C18: no polling cycle begins while the source is stopped (action property)
NoReadWhileStopped == [][(pos' # pos) => on]_vars
Exact == (pos = Len(file) /\ pending = <<>>) =>
            /\ emitted = Records(SubSeq(file, StartPos + 1, Len(file)))
            /\ buffer = Rest(SubSeq(file, StartPos + 1, Len(file)))
=============================================================================
