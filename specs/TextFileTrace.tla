--------------------------- MODULE TextFileTrace ---------------------------
(* Trace validation of the real from_textfile source: writes and emitted records are observed, the read()  *)
(* itself is not: Poll is a silent step inferred by TLC (the logged buffer pins it down).                  *)
EXTENDS TextFile, Json, IOUtils, TLCExt

Traces == JsonDeserialize(IOEnv.TRACE_FILE)
VARIABLES tid, l
tvars == <<vars, tid, l>>
T == Traces[tid].ev
Same == UNCHANGED vars
Max(a, b) == IF a > b THEN a ELSE b

TraceInit == /\ tid \in 1 .. Len(Traces) /\ l = 1 /\ Init /\ TLCSet(tid, 1)

Event(ev) ==
    CASE ev.ev = "Write" -> file' = file \o ev.data /\ UNCHANGED <<pos, buffer, pending, emitted, inflight, on>>
      [] ev.ev = "Start" -> Start
      [] ev.ev = "Stop" -> Stop
      [] ev.ev = "Emit" -> EmitRec(ev.async) /\ Head(pending) = ev.rec
      [] ev.ev = "Done" -> ConsumerDone
      [] ev.ev = "ObsBuffer" -> buffer = ev.buffer /\ pending = <<>> /\ Same
      \* (a stopped source owes nothing: the cycle in progress *may* finish -- behind a stopped map_async it does not)
      [] ev.ev = "End" -> (on => (pos = Len(file) /\ pending = <<>>)) /\ Same
      [] OTHER -> FALSE

TraceNext ==
    \/ /\ l <= Len(T) /\ Event(T[l])
       /\ l' = l + 1 /\ TLCSet(tid, Max(TLCGet(tid), l + 1)) /\ UNCHANGED tid
    \/ /\ l <= Len(T) /\ Poll /\ UNCHANGED <<tid, l>>

TraceSpec == TraceInit /\ [][TraceNext]_tvars
TraceInv == Conservation /\ WholeRecords /\ TailHeld /\ Exact /\ OneAtATime
Report == \A i \in 1 .. Len(Traces) : PrintT(<<"REACHED", Traces[i].id, TLCGet(i), Len(Traces[i].ev) + 1>>)

\* per-group constants (the text alphabet is irrelevant for validation)
TraceAlphabet == {}
DelimNL == <<10>>
DelimNLBar == <<10, 124>>
DelimNLNL == <<10, 10>>
InitialEmpty == <<>>
InitialText == <<120, 10, 121>>
=============================================================================
