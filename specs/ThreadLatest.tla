---------------------------- MODULE ThreadLatest ----------------------------
(***************************************************************************)
(* latest() in threaded operation: the pipeline's event loop runs in       *)
(* streamz' background thread (Stream(), asynchronous=False); a producer   *)
(* thread pushes with source.emit(x, asynchronous=True), so latest.update  *)
(* (core.py:2057-2066) runs in the *producer* thread while the forwarding   *)
(* coroutine cb (core.py:2068-2080) runs on the loop thread:               *)
(*                                                                         *)
(*   update(x):  slot = x; fresh = True                                    *)
(*               loop.add_callback(condition.notify)    [thread-safe: the  *)
(*                      callback is queued AND the loop thread is woken]   *)
(*   cb():  while True:                                                    *)
(*              while not fresh: yield condition.wait()                    *)
(*              fresh = False; x = slot                                    *)
(*              yield self._emit(x)                                        *)
(*                                                                         *)
(* What is modelled is the wake-up protocol between the two threads: the   *)
(* loop thread sleeps in its selector when it has nothing to run and only  *)
(* a thread-safe call wakes it.  DirectNotify = TRUE is the variant in     *)
(* which update() calls condition.notify() itself: from a foreign thread   *)
(* that (a) finds no waiter if cb is between its test of `fresh` and the   *)
(* registration of its wait, and (b) queues cb's resumption with           *)
(* call_soon, which does not wake a sleeping loop -- TLC refutes           *)
(* NoLostWakeup / NewestDelivered for it.                                  *)
(***************************************************************************)
EXTENDS Integers, Sequences, FiniteSets, TLC

CONSTANTS NE,            \* elements 1 .. NE
          DirectNotify   \* FALSE: the tree (loop.add_callback(condition.notify)); TRUE: condition.notify() in the caller's thread

VARIABLES arrived,   \* number of pushes performed
          slot,      \* latest's slot (0: empty)
          fresh,     \* the slot holds something cb has not taken
          notifyq,   \* queued condition.notify callbacks (thread-safe queue: the loop is awake while it is non-empty)
          resumeq,   \* cb's resumption is queued on the loop (call_soon by the notify that found it waiting)
          cbpc,      \* "check" (about to test fresh) | "registering" (saw not fresh, about to wait) | "waiting" | "consuming"
          asleep,    \* the loop thread is blocked in its selector
          delivered, \* history of what the consumer was handed
          calls      \* pushes that have been called and not returned (producer side; for trace validation)
vars == <<arrived, slot, fresh, notifyq, resumeq, cbpc, asleep, delivered, calls>>

Init == /\ arrived = 0 /\ slot = 0 /\ fresh = FALSE /\ notifyq = 0 /\ resumeq = FALSE /\ cbpc = "check"
        /\ asleep = FALSE /\ delivered = <<>> /\ calls = 0

\* ---- producer thread
PushCall == arrived + calls < NE /\ calls = 0 /\ calls' = 1
            /\ UNCHANGED <<arrived, slot, fresh, notifyq, resumeq, cbpc, asleep, delivered>>
\* latest.update, in the producer thread
Push ==
    /\ calls = 1
    /\ arrived' = arrived + 1 /\ slot' = arrived + 1 /\ fresh' = TRUE /\ calls' = 2
    /\ IF DirectNotify
       THEN /\ IF cbpc = "waiting" /\ ~resumeq THEN resumeq' = TRUE ELSE resumeq' = resumeq    \* call_soon: nobody is woken
            /\ UNCHANGED <<notifyq, asleep>>
       ELSE /\ notifyq' = notifyq + 1 /\ asleep' = FALSE /\ UNCHANGED resumeq
    /\ UNCHANGED <<cbpc, delivered>>
PushRet == calls = 2 /\ calls' = 0 /\ UNCHANGED <<arrived, slot, fresh, notifyq, resumeq, cbpc, asleep, delivered>>

\* ---- loop thread (one callback at a time; nothing runs while the consumer blocks the thread)
Awake == ~asleep /\ cbpc # "consuming"
\* (cb tests the flag and registers its wait within one loop callback: the loop runs another callback only while cb waits)
RunNotify ==
    /\ Awake /\ notifyq > 0 /\ cbpc = "waiting"
    /\ notifyq' = notifyq - 1
    /\ resumeq' = TRUE
    /\ UNCHANGED <<arrived, slot, fresh, cbpc, asleep, delivered, calls>>
Resume ==
    /\ Awake /\ resumeq /\ cbpc = "waiting"
    /\ resumeq' = FALSE /\ cbpc' = "check"
    /\ UNCHANGED <<arrived, slot, fresh, notifyq, asleep, delivered, calls>>
\* cb tests the flag: takes the slot and hands it to the consumer (which keeps the loop thread until it is done) ...
Deliver(e) ==
    /\ Awake /\ cbpc = "check" /\ fresh /\ e = slot
    /\ fresh' = FALSE /\ delivered' = Append(delivered, e) /\ cbpc' = "consuming"
    /\ UNCHANGED <<arrived, slot, notifyq, resumeq, asleep, calls>>
ConsumerDone ==
    /\ ~asleep /\ cbpc = "consuming" /\ cbpc' = "check"
    /\ UNCHANGED <<arrived, slot, fresh, notifyq, resumeq, asleep, delivered, calls>>
\* ... or finds nothing new and goes to wait (two steps: the producer thread may push in between)
CheckEmpty ==
    /\ Awake /\ cbpc = "check" /\ ~fresh /\ cbpc' = "registering"
    /\ UNCHANGED <<arrived, slot, fresh, notifyq, resumeq, asleep, delivered, calls>>
Register ==
    /\ Awake /\ cbpc = "registering" /\ cbpc' = "waiting"
    /\ UNCHANGED <<arrived, slot, fresh, notifyq, resumeq, asleep, delivered, calls>>
\* nothing to run (as far as the loop thread can see): block in the selector.  A resumption queued by a foreign thread's
\* call_soon is not seen: the selector was entered with no timeout and nobody wakes it.
Sleep ==
    /\ Awake /\ cbpc = "waiting" /\ notifyq = 0 /\ (resumeq => DirectNotify) /\ ~asleep
    /\ asleep' = TRUE
    /\ UNCHANGED <<arrived, slot, fresh, notifyq, resumeq, cbpc, delivered, calls>>

LoopStep == RunNotify \/ Resume \/ (\E e \in 1 .. NE : Deliver(e)) \/ CheckEmpty \/ Register \/ Sleep
Next == PushCall \/ Push \/ PushRet \/ LoopStep \/ ConsumerDone
Spec == Init /\ [][Next]_vars
FairSpec == Spec /\ WF_vars(LoopStep) /\ WF_vars(ConsumerDone) /\ WF_vars(Push) /\ WF_vars(PushRet)

----------------------------------------------------------------------------
TypeOK == /\ cbpc \in {"check", "registering", "waiting", "consuming"} /\ notifyq \in 0 .. NE /\ calls \in 0 .. 2
\* C14: a subsequence of the input, in order, nothing twice
Subsequence == \A i, j \in 1 .. Len(delivered) : i < j => delivered[i] < delivered[j]
OnlyArrived == \A i \in 1 .. Len(delivered) : delivered[i] \in 1 .. arrived
\* C14: the loop thread never goes to sleep on an element it has not handed on
NoLostWakeup == asleep => (~fresh /\ ~resumeq)
Last(s) == s[Len(s)]
\* C14 (liveness): once input has stopped and the consumer is free, the most recent element has been delivered
NewestDelivered == (arrived = NE) ~> (delivered # <<>> /\ Last(delivered) = NE)
=============================================================================
