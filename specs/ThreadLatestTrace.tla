------------------------- MODULE ThreadLatestTrace -------------------------
(* Trace validation of the real latest() node in threaded operation against ThreadLatest.  Logged (one lock, one global  *)
(* order): PushCall / PushRet around source.emit(x, asynchronous=True) in the producer thread, Deliver (the consumer is   *)
(* called on the loop thread), ConsumerDone (the consumer lets the loop thread go), End (the driver has waited for the     *)
(* last push to come out -- or given up).  The push itself and the loop's own steps are silent, inferred by TLC.          *)
EXTENDS ThreadLatest, Json, IOUtils, TLCExt
Traces == JsonDeserialize(IOEnv.TRACE_FILE)
VARIABLES tid, l
tvars == <<vars, tid, l>>
T == Traces[tid].ev
Max(a, b) == IF a > b THEN a ELSE b
TraceInit == /\ tid \in 1 .. Len(Traces) /\ l = 1 /\ Init /\ TLCSet(tid, 1)
Event(ev) ==
    CASE ev.ev = "PushCall" -> PushCall
      [] ev.ev = "PushRet" -> PushRet
      [] ev.ev = "Deliver" -> Deliver(ev.e)
      [] ev.ev = "ConsumerDone" -> ConsumerDone
      \* input has stopped, the consumer is free, the driver has waited: the newest element has come out
      [] ev.ev = "End" -> calls = 0 /\ cbpc # "consuming" /\ (arrived = 0 \/ (delivered # <<>> /\ Last(delivered) = arrived))
                          /\ UNCHANGED vars
      [] OTHER -> FALSE
TraceNext ==
    \/ /\ l <= Len(T) /\ Event(T[l])
       /\ l' = l + 1 /\ TLCSet(tid, Max(TLCGet(tid), l + 1)) /\ UNCHANGED tid
    \/ /\ l <= Len(T) /\ (Push \/ RunNotify \/ Resume \/ CheckEmpty \/ Register \/ Sleep) /\ UNCHANGED <<tid, l>>
TraceSpec == TraceInit /\ [][TraceNext]_tvars
TraceInv == TypeOK /\ Subsequence /\ OnlyArrived /\ NoLostWakeup
Report == \A i \in 1 .. Len(Traces) : PrintT(<<"REACHED", Traces[i].id, TLCGet(i), Len(Traces[i].ev) + 1>>)
=============================================================================
