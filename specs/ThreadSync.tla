----------------------------- MODULE ThreadSync -----------------------------
(***************************************************************************)
(* Blocking emit: a pipeline whose event loop runs in another thread       *)
(* (asynchronous=False), fed by producer threads calling source.emit(x)    *)
(* (core.py:464-501) which goes through sync(loop, coroutine)              *)
(* (core.py:2076-2117).                                                    *)
(*                                                                         *)
(*   emit(x) in a producer thread:                                         *)
(*       sync(loop, _):   loop.add_callback(f); wait for e                 *)
(*   on the loop thread:                                                   *)
(*       f():   yield gen.moment                                           *)
(*              thread_state.asynchronous = True                           *)
(*              result = yield _()                                         *)
(*              [error = the exception]                                    *)
(*              finally: thread_state.asynchronous = False; e.set()        *)
(*       _():   thread_state.asynchronous = True                           *)
(*              try: await gather(.. self._emit(x))   (suspends while the   *)
(*                                                    consumer is busy)    *)
(*              finally: del thread_state.asynchronous     [DelTs = TRUE]  *)
(*                       thread_state.asynchronous = False [DelTs = FALSE] *)
(*                                                                         *)
(* thread_state is thread-local: all coroutines of all blocking emits      *)
(* share the loop thread's copy (ts).  The loop runs its callbacks in FIFO  *)
(* order (rq).  Consumers (asynchronous sinks) finish when the environment *)
(* says so -- several may finish in one loop callback.                     *)
(***************************************************************************)
EXTENDS Integers, Sequences, FiniteSets, TLC

CONSTANTS NP,       \* producer threads
          NC,       \* blocking emits per producer
          Faults,   \* TRUE: a consumer may raise
          DelTs,    \* TRUE: `del thread_state.asynchronous` (the pinned tree); FALSE: reset to False
          LeakFlag  \* FALSE: the tree (emit restores the calling thread's flag in a finally clause); TRUE: the flag is not
                    \* restored when the asynchronous emit raises (refuted by FlagRestored / WaitsForConsumer)

Procs == 1 .. NP

VARIABLES pc,       \* pc[p]: "idle" | "blocked"   (the producer thread)
          ncall,    \* number of emits p has started
          cst,      \* state of p's current call on the loop: "none" | "queued" | "moment" | "suspended" | "resumable" | "codone" | "signalled"
          busy,     \* consumers that have been handed p's element and have not finished
          outcome,  \* outcome[p]: "ok" | "consumer" (the consumer raised) | "attr" (AttributeError from `del`)
          ts,       \* the loop thread's thread_state.asynchronous: "unset" | "true" | "false"
          rq,       \* the loop's ready queue: <<kind, p>>, kind in "fstart" "frun" "co" "ffinal"
          results,  \* history: <<p, call number, outcome>> in the order the emits returned
          delivered,\* history: <<p, call number>> in the order the consumer was called
          cflag     \* cflag[p]: producer thread p's own thread_state.asynchronous (emit takes the blocking path only if it is unset)
vars == <<pc, ncall, cst, busy, outcome, ts, rq, results, delivered, cflag>>

Init == /\ pc = [p \in Procs |-> "idle"] /\ ncall = [p \in Procs |-> 0] /\ cst = [p \in Procs |-> "none"]
        /\ busy = {} /\ outcome = [p \in Procs |-> "ok"] /\ ts = "unset" /\ rq = <<>> /\ results = <<>> /\ delivered = <<>>
        /\ cflag = [p \in Procs |-> FALSE]

\* a producer thread calls emit: f is handed to the loop, the thread blocks
Call(p) ==
    /\ pc[p] = "idle" /\ ncall[p] < NC
    /\ pc' = [pc EXCEPT ![p] = "blocked"] /\ ncall' = [ncall EXCEPT ![p] = @ + 1]
    /\ outcome' = [outcome EXCEPT ![p] = "ok"]
    /\ IF cflag[p]
       THEN \* the thread believes it is inside asynchronous stream code: the consumer is called right here, in the producer
            \* thread, and emit returns what it returned without waiting
            /\ cst' = [cst EXCEPT ![p] = "signalled"] /\ busy' = busy \cup {p}
            /\ delivered' = Append(delivered, <<p, ncall[p] + 1>>) /\ rq' = rq
       ELSE /\ cst' = [cst EXCEPT ![p] = "queued"] /\ rq' = Append(rq, <<"fstart", p>>)
            /\ UNCHANGED <<busy, delivered>>
    /\ UNCHANGED <<ts, results, cflag>>

\* producer thread p, between two blocking emits, pushes an element into an asynchronous pipeline of its own (emit(x,
\* asynchronous=True) / a Stream(asynchronous=True) on a loop run by that thread): the flag is set for the duration of the call
\* and put back afterwards -- also when a function of that pipeline raises
AsyncEmit(p, fails) ==
    /\ pc[p] = "idle"
    /\ cflag' = [cflag EXCEPT ![p] = IF LeakFlag /\ fails THEN TRUE ELSE cflag[p]]
    /\ UNCHANGED <<pc, ncall, cst, busy, outcome, ts, rq, results, delivered>>

\* the loop runs the callback at the head of its queue
Step ==
    /\ rq # <<>>
    /\ LET k == Head(rq)[1]
           p == Head(rq)[2]
       IN CASE k = "fstart" ->            \* f starts and yields gen.moment
                 /\ cst' = [cst EXCEPT ![p] = "moment"] /\ rq' = Append(Tail(rq), <<"frun", p>>)
                 /\ UNCHANGED <<pc, ncall, busy, outcome, ts, results, delivered, cflag>>
            [] k = "frun" ->              \* f and _ set the flag, _emit calls the consumer, which returns an awaitable
                 /\ ts' = "true" /\ cst' = [cst EXCEPT ![p] = "suspended"]
                 /\ busy' = busy \cup {p} /\ delivered' = Append(delivered, <<p, ncall[p]>>)
                 /\ rq' = Tail(rq)
                 /\ UNCHANGED <<pc, ncall, outcome, results, cflag>>
            [] k = "co" ->                \* _ resumes with the consumer's result / exception and runs its finally clause
                 /\ cst' = [cst EXCEPT ![p] = "codone"]
                 /\ IF DelTs
                    THEN IF ts = "unset"
                         THEN /\ outcome' = [outcome EXCEPT ![p] = "attr"] /\ ts' = ts       \* AttributeError replaces whatever was there
                         ELSE /\ ts' = "unset" /\ outcome' = outcome
                    ELSE /\ ts' = "false" /\ outcome' = outcome
                 /\ rq' = Append(Tail(rq), <<"ffinal", p>>)
                 /\ UNCHANGED <<pc, ncall, busy, results, delivered, cflag>>
            [] k = "ffinal" ->            \* f resumes: records result / error, resets the flag, wakes the producer thread
                 /\ ts' = "false" /\ cst' = [cst EXCEPT ![p] = "signalled"] /\ rq' = Tail(rq)
                 /\ UNCHANGED <<pc, ncall, busy, outcome, results, delivered, cflag>>

\* the consumers of the elements of the producers in `ps` (a sequence without repetition) finish in one loop callback,
\* `bad` of them by raising
Finish(ps, bad) ==
    /\ ps # <<>> /\ \A i \in 1 .. Len(ps) : ps[i] \in busy /\ cst[ps[i]] = "suspended"
    /\ \A i, j \in 1 .. Len(ps) : i # j => ps[i] # ps[j]
    /\ bad \subseteq {ps[i] : i \in 1 .. Len(ps)} /\ (bad # {} => Faults)
    /\ busy' = busy \ {ps[i] : i \in 1 .. Len(ps)}
    /\ cst' = [p \in Procs |-> IF \E i \in 1 .. Len(ps) : ps[i] = p THEN "resumable" ELSE cst[p]]
    /\ outcome' = [p \in Procs |-> IF p \in bad THEN "consumer" ELSE outcome[p]]
    /\ rq' = rq \o [i \in 1 .. Len(ps) |-> <<"co", ps[i]>>]
    /\ UNCHANGED <<pc, ncall, ts, results, delivered, cflag>>

\* the producer thread wakes up: emit returns or raises
Return(p) ==
    /\ pc[p] = "blocked" /\ cst[p] = "signalled"
    /\ pc' = [pc EXCEPT ![p] = "idle"] /\ cst' = [cst EXCEPT ![p] = "none"]
    /\ results' = Append(results, <<p, ncall[p], outcome[p]>>)
    /\ UNCHANGED <<ncall, busy, outcome, ts, rq, delivered, cflag>>

Seqs(S) == {<<>>} \cup {<<a>> : a \in S} \cup {<<a, b>> : a \in S, b \in S} \cup {<<a, b, c>> : a \in S, b \in S, c \in S}
Next == (\E p \in Procs : Call(p) \/ Return(p) \/ (\E f \in BOOLEAN : AsyncEmit(p, f))) \/ Step
        \/ \E ps \in Seqs(Procs) : \E bad \in SUBSET Procs : Finish(ps, bad)
Spec == Init /\ [][Next]_vars
FairSpec == Spec /\ WF_vars(Step) /\ \A p \in Procs : WF_vars(Return(p)) /\ WF_vars(Finish(<<p>>, {}))

----------------------------------------------------------------------------
TypeOK == /\ \A p \in Procs : cst[p] \in {"none", "queued", "moment", "suspended", "resumable", "codone", "signalled"}
          /\ ts \in {"unset", "true", "false"}
\* C03: a blocking emit does not return before the consumer of its element has finished
WaitsForConsumer == \A p \in Procs : cst[p] \in {"codone", "signalled"} => p \notin busy
ReturnedAfterDelivery == \A i \in 1 .. Len(results) : \E j \in 1 .. Len(delivered) : delivered[j] = <<results[i][1], results[i][2]>>
\* C03 / C16: emit raises exactly when the consumer raised -- never on its own
NoSpuriousError == \A i \in 1 .. Len(results) : results[i][3] # "attr"
\* C16: an element that fails in one pipeline leaves the thread as it found it (the next blocking emit blocks)
FlagRestored == \A p \in Procs : ~cflag[p]
\* C02: each producer's elements reach the consumer in the order it emitted them, each once
PerProducerOrder == \A i, j \in 1 .. Len(delivered) : (i < j /\ delivered[i][1] = delivered[j][1]) => delivered[i][2] < delivered[j][2]
\* C03 (liveness): whenever all consumers complete, every blocking emit returns
AllReturn == \A p \in Procs : (pc[p] = "blocked") ~> (pc[p] = "idle")
=============================================================================
