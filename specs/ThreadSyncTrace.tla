-------------------------- MODULE ThreadSyncTrace --------------------------
(* Trace validation of real blocking emits (producer threads, loop in a background thread) against ThreadSync.   *)
(* Logged: Call, Deliver (the consumer is called: the loop step "frun"), Finish (the driver's loop callback that  *)
(* completes consumers), Return (with the kind of outcome).  The other loop steps are silent.  A spurious        *)
(* exception is reported per occurrence (it does not stop the validation of the rest of the trace).             *)
EXTENDS ThreadSync, Json, IOUtils, TLCExt
Traces == JsonDeserialize(IOEnv.TRACE_FILE)
VARIABLES tid, l
tvars == <<vars, tid, l>>
T == Traces[tid].ev
Max(a, b) == IF a > b THEN a ELSE b
ToSet(s) == {s[i] : i \in 1 .. Len(s)}
TraceInit == /\ tid \in 1 .. Len(Traces) /\ l = 1 /\ Init /\ TLCSet(tid, 1)
HeadKind == IF rq = <<>> THEN "" ELSE Head(rq)[1]
Event(ev) ==
    CASE ev.ev = "Call" -> Call(ev.p)
      [] ev.ev = "AsyncEmit" -> AsyncEmit(ev.p, ev.fails) /\ cflag'[ev.p] = ev.flag
      [] ev.ev = "Deliver" -> HeadKind = "frun" /\ Head(rq)[2] = ev.p /\ Step /\ ev.k = ncall[ev.p]
      [] ev.ev = "Finish" -> Finish(ev.ps, ToSet(ev.bad))
      [] ev.ev = "Return" -> Return(ev.p) /\ results'[Len(results')] = <<ev.p, ev.k, ev.kind>>
      [] ev.ev = "End" -> (\A p \in Procs : pc[p] = "idle") /\ rq = <<>> /\ busy = {} /\ UNCHANGED vars
      [] OTHER -> FALSE
TraceNext ==
    \/ /\ l <= Len(T) /\ Event(T[l])
       /\ l' = l + 1 /\ TLCSet(tid, Max(TLCGet(tid), l + 1)) /\ UNCHANGED tid
       /\ ((NoSpuriousError /\ ~NoSpuriousError') => PrintT(<<"UNSAFE", Traces[tid].id, l>>))
    \/ /\ l <= Len(T) /\ HeadKind \in {"fstart", "co", "ffinal"} /\ Step /\ UNCHANGED <<tid, l>>
TraceSpec == TraceInit /\ [][TraceNext]_tvars
TraceInv == TypeOK /\ FlagRestored /\ WaitsForConsumer /\ ReturnedAfterDelivery /\ PerProducerOrder
Report == \A i \in 1 .. Len(Traces) : PrintT(<<"REACHED", Traces[i].id, TLCGet(i), Len(Traces[i].ev) + 1>>)
=============================================================================
