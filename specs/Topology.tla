------------------------------ MODULE Topology ------------------------------
(***************************************************************************)
(* Graph editing on top of SyncFlow: Stream.connect / disconnect / destroy *)
(* (core.py:513-553), Sink.destroy (sinks.py:21-23), the overrides         *)
(* zip._add_upstream/_remove_upstream (core.py:1608-1616) and              *)
(* combine_latest._add_upstream/_remove_upstream (core.py:1689-1713), and  *)
(* garbage collection of branches the program no longer references         *)
(* (OrderedWeakrefSet: a parent holds its children weakly, a child holds   *)
(* its parents strongly, sinks are pinned by streamz.sinks._global_sinks). *)
(* Edits are interleaved with emissions; the data-flow step is SyncFlow's. *)
(***************************************************************************)
EXTENDS SyncFlow

VARIABLES held,    \* nodes the program still holds a reference to
          alive,   \* nodes that exist (not garbage collected)
          pinned,  \* sinks registered in _global_sinks (not destroyed)
          edits,   \* number of editing operations so far
          err      \* the last editing call raised
tvars2 == <<vars, held, alive, pinned, edits, err>>

CONSTANTS MaxEdits

IsSink(n) == prog[n].kind = "sink"
WithoutAt(s, i) == SubSeq(s, 1, i - 1) \o SubSeq(s, i + 1, Len(s))

TInit ==
    /\ Init
    /\ held = 1 .. Len(prog)
    /\ alive = 1 .. Len(prog)
    /\ pinned = {n \in 1 .. Len(prog) : prog[n].kind = "sink"}
    /\ edits = 0 /\ err = FALSE

\* reachability of strong references: program-held names, pinned sinks, and upstream lists of live nodes
RECURSIVE Closure(_, _)
Closure(S, p) == LET S2 == S \cup {u \in 1 .. Len(p) : \E d \in S : InSeq(p[d].ups, u)}
                 IN IF S2 = S THEN S ELSE Closure(S2, p)
Collect(h, pin, p) == Closure(h \cup pin, p)

\* node state of d after _add_upstream(u) / _remove_upstream at position i
StateAdd(d, s) ==
    CASE prog[d].kind = "zip" -> Append(s, <<>>)
      [] prog[d].kind = "combine_latest" ->
            [last |-> Append(s.last, <<>>), md |-> Append(s.md, <<>>), missing |-> s.missing \cup {Len(s.last) + 1}]
      [] OTHER -> s
StateRemove(d, s, i) ==
    CASE prog[d].kind = "zip" -> WithoutAt(s, i)
      [] prog[d].kind = "combine_latest" ->
            [last |-> WithoutAt(s.last, i), md |-> WithoutAt(s.md, i),
             missing |-> {IF j > i THEN j - 1 ELSE j : j \in s.missing \ {i}}]
      [] OTHER -> s
\* ... and after every input has been removed (destroy() goes through _remove_upstream for each of them)
StateClear(d, s) ==
    CASE prog[d].kind = "zip" -> <<>>
      [] prog[d].kind = "combine_latest" -> [last |-> <<>>, md |-> <<>>, missing |-> {}]
      [] OTHER -> s
\* combine_latest built without emit_on keeps emit_on = all upstreams
EonAdd(nd) == IF nd.kind = "combine_latest" /\ nd.b2 THEN nd.eon \cup {Len(nd.ups) + 1} ELSE nd.eon
EonRemove(nd, i) == IF nd.kind = "combine_latest" /\ nd.b2
                    THEN {IF j > i THEN j - 1 ELSE j : j \in nd.eon \ {i}} ELSE nd.eon

Sweep(h, pin, p, dn) ==     \* garbage collection: dead children vanish from their parents' weak sets
    LET a == Collect(h, pin, p)
    IN <<a, [u \in DOMAIN dn |-> SelectSeq(dn[u], LAMBDA d : d \in a)]>>

\* u.connect(d)
Connect(u, d) ==
    /\ edits < MaxEdits /\ u \in held /\ d \in held /\ u # d
    /\ ~InSeq(prog[d].ups, u) /\ ~InSeq(downs[u], d)
    /\ prog[u].kind # "sink" /\ d \notin Closure({u}, prog)          \* no cycles (feedback is SyncFlow's business)
    /\ prog[d].kind \in {"zip", "combine_latest", "union", "sink", "map", "stream"}
    /\ prog[d].kind \in {"sink", "map", "stream"} => prog[d].ups = <<>>
    /\ prog' = [prog EXCEPT ![d].ups = Append(@, u), ![d].eon = EonAdd(prog[d])]
    /\ nst' = [nst EXCEPT ![d] = StateAdd(d, @)]
    /\ downs' = [downs EXCEPT ![u] = Append(@, d)]
    /\ edits' = edits + 1 /\ err' = FALSE
    /\ UNCHANGED <<rc, cbs, dlog, elog, flushes, calls, failed, nfail, held, alive, pinned>>

\* u.disconnect(d)
Disconnect(u, d) ==
    /\ edits < MaxEdits /\ u \in held /\ d \in held
    /\ InSeq(prog[d].ups, u) /\ InSeq(downs[u], d)
    /\ LET i == IndexOf(prog[d].ups, u) IN
       /\ prog' = [prog EXCEPT ![d].ups = WithoutAt(@, i), ![d].eon = EonRemove(prog[d], i)]
       /\ nst' = [nst EXCEPT ![d] = StateRemove(d, @, i)]
    /\ LET sw == Sweep(held, pinned, prog', [downs EXCEPT ![u] = Without(@, d)]) IN alive' = sw[1] /\ downs' = sw[2]
    /\ edits' = edits + 1 /\ err' = FALSE
    /\ UNCHANGED <<rc, cbs, dlog, elog, flushes, calls, failed, nfail, held, pinned>>

\* n.destroy(): detach from every upstream; a sink also leaves _global_sinks
Destroy(n) ==
    /\ edits < MaxEdits /\ n \in held /\ prog[n].ups # <<>>
    /\ prog[n].kind \in {"sink", "map", "stream", "union", "zip", "combine_latest"}
    /\ prog[n].kind = "combine_latest" => prog[n].b2          \* (an explicit emit_on stream cannot be removed: raises)
    /\ prog' = [prog EXCEPT ![n].ups = <<>>, ![n].eon = IF prog[n].kind = "combine_latest" THEN {} ELSE @]
    /\ nst' = [nst EXCEPT ![n] = StateClear(n, @)]
    /\ pinned' = pinned \ {n}
    /\ LET sw == Sweep(held, pinned \ {n}, prog',
                       [u \in DOMAIN downs |-> IF InSeq(prog[n].ups, u) THEN Without(downs[u], n) ELSE downs[u]])
       IN alive' = sw[1] /\ downs' = sw[2]
    /\ edits' = edits + 1 /\ err' = FALSE
    /\ UNCHANGED <<rc, cbs, dlog, elog, flushes, calls, failed, nfail, held>>

\* d.destroy(streams=[u]): the same edit as u.disconnect(d), asked for at the other end
DestroyFrom(d, u) == prog[d].kind # "sink" /\ Disconnect(u, d)

\* d.destroy(streams=[]) / d.destroy(streams=()): an empty selection removes nothing (it is not "no selection")
DestroyNone(d) ==
    /\ edits < MaxEdits /\ d \in held /\ prog[d].kind # "sink" /\ prog[d].ups # <<>>
    /\ edits' = edits + 1 /\ err' = FALSE
    /\ UNCHANGED <<prog, nst, rc, cbs, dlog, elog, flushes, calls, failed, nfail, held, alive, pinned, downs>>

\* the program forgets node n (del + gc.collect()); whatever is unreachable is collected
DropRef(n) ==
    /\ edits < MaxEdits /\ n \in held /\ ~IsEntry(n)
    /\ held' = held \ {n}
    /\ LET sw == Sweep(held \ {n}, pinned, prog, downs) IN alive' = sw[1] /\ downs' = sw[2]
    /\ edits' = edits + 1 /\ err' = FALSE
    /\ UNCHANGED <<prog, nst, rc, cbs, dlog, elog, flushes, calls, failed, nfail, pinned>>

TEmit == /\ calls < MaxEmits
         /\ \E e \in Entries(prog), v \in Vals : e \in alive /\ EmitAt(e, I(v), <<>>, {})
         /\ UNCHANGED <<held, alive, pinned, edits, err>>

TNext == TEmit
         \/ \E u \in 1 .. Len(prog), d \in 1 .. Len(prog) : Connect(u, d) \/ Disconnect(u, d) \/ DestroyFrom(d, u)
         \/ \E n \in 1 .. Len(prog) : Destroy(n) \/ DropRef(n) \/ DestroyNone(n)
TSpec == TInit /\ [][TNext]_tvars2

----------------------------------------------------------------------------
\* C15: upstream and downstream links are mutually consistent (among nodes that still exist)
LinksConsistent ==
    \A u \in alive, d \in alive : InSeq(downs[u], d) <=> InSeq(prog[d].ups, u)
NoDanglingLinks == \A u \in alive : \A i \in 1 .. Len(downs[u]) : downs[u][i] \in alive
NoParallelEdges == \A u \in alive : \A i, j \in 1 .. Len(downs[u]) : i # j => downs[u][i] # downs[u][j]
\* C15: the per-input state of a combining node always matches its current inputs
CombinerShape ==
    \A d \in alive :
        /\ prog[d].kind = "zip" => Len(nst[d]) = Len(prog[d].ups)
        /\ prog[d].kind = "combine_latest" =>
              /\ Len(nst[d].last) = Len(prog[d].ups) /\ Len(nst[d].md) = Len(prog[d].ups)
              /\ nst[d].missing = {i \in 1 .. Len(prog[d].ups) : nst[d].last[i] = <<>>}
\* C15: a zip behaves like a zip built over its current inputs that has received what they delivered so far:
\* such a node never sits on a complete tuple (reported per occurrence: known finding F13b)
ZipNoCompleteTuple ==
    \A d \in alive : (prog[d].kind = "zip" /\ prog[d].ups # <<>>) => \E i \in 1 .. Len(nst[d]) : nst[d][i] = <<>>

\* C15: elements travel exactly along the edges that exist when they are emitted (action property):
\* every delivery appended by a step goes to a current child of the node it comes from
DeliveriesFollowEdges ==
    [][\A i \in (Len(dlog) + 1) .. Len(dlog') :
          dlog'[i][2] = 0 \/ InSeq(downs[dlog'[i][2]], dlog'[i][1])]_tvars2
\* C15: a sink keeps receiving until it is destroyed, even if the program forgot it;
\* a forgotten branch without a sink is collected and receives nothing any more
SinksStay == \A n \in pinned : n \in alive
ForgottenCollected == \A n \in 1 .. Len(prog) :
                          (n \notin held /\ ~(\E s \in pinned : n \in Closure({s}, prog))
                           /\ ~(\E h \in held : n \in Closure({h}, prog))) => n \notin alive
=============================================================================
