--------------------------- MODULE TopologyTrace ---------------------------
(* Trace validation of graph editing on the real classes against Topology. *)
EXTENDS Topology, Json, IOUtils, TLCExt
Traces == JsonDeserialize(IOEnv.TRACE_FILE)
VARIABLES tid, l
ttvars == <<tvars2, tid, l>>
TR == Traces[tid].ev
Max(a, b) == IF a > b THEN a ELSE b
ToSet(s) == {s[i] : i \in DOMAIN s}
FixProg(p) == [i \in DOMAIN p |-> [p[i] EXCEPT !.eon = ToSet(@)]]
FixState(nd, o) == IF nd.kind \in {"combine_latest", "zip_latest"} THEN [o EXCEPT !.missing = ToSet(@)] ELSE o

TraceInit ==
    /\ tid \in 1 .. Len(Traces) /\ l = 1 /\ TLCSet(tid, 1)
    /\ prog = FixProg(Traces[tid].prog)
    /\ nst = [n \in 1 .. Len(prog) |-> InitState(prog[n])]
    /\ downs = InitDowns(prog)
    /\ rc = [t \in Tags |-> 0] /\ cbs = <<>> /\ dlog = <<>> /\ elog = <<>> /\ flushes = <<>>
    /\ calls = 0 /\ failed = {} /\ nfail = 0
    /\ held = 1 .. Len(prog) /\ alive = 1 .. Len(prog)
    /\ pinned = {n \in 1 .. Len(prog) : prog[n].kind = "sink"}
    /\ edits = 0 /\ err = FALSE

Strip(dl, from) == [i \in 1 .. (Len(dl) - from) |-> SubSeq(dl[from + i], 1, 4)]

Obs(ev) ==
    /\ \A n \in alive' : downs'[n] = ev.downs[n]
    /\ \A n \in alive' : prog'[n].ups = ev.ups[n]
    /\ alive' = ToSet(ev.alive)
    /\ \A n \in alive' : (prog'[n].kind \in {"zip", "combine_latest"} /\ n \notin ToSet(ev.opq)) => nst'[n] = FixState(prog'[n], ev.nst[n])

Event(ev) ==
    /\ CASE ev.ev = "emit" -> /\ EmitAt(ev.a, ev.x, <<>>, {})
                               /\ UNCHANGED <<held, alive, pinned, edits, err>>
                               /\ Strip(dlog', Len(dlog)) = ev.dlog
         [] ev.ev = "connect" -> Connect(ev.a, ev.b)
         [] ev.ev = "disconnect" -> Disconnect(ev.a, ev.b)
         [] ev.ev = "destroy" -> Destroy(ev.a)
         [] ev.ev = "destroy_from" -> DestroyFrom(ev.a, ev.b)
         [] ev.ev = "destroy_none" -> DestroyNone(ev.a)
         [] ev.ev = "dropref" -> DropRef(ev.a)
         [] OTHER -> FALSE
    /\ ev.raised = FALSE
    /\ Obs(ev)

TraceNext == /\ l <= Len(TR) /\ Event(TR[l])
             /\ l' = l + 1 /\ TLCSet(tid, Max(TLCGet(tid), l + 1)) /\ UNCHANGED tid
             /\ ((ZipNoCompleteTuple /\ ~ZipNoCompleteTuple') => PrintT(<<"UNSAFE", Traces[tid].id, l>>))
TraceSpec == TraceInit /\ [][TraceNext]_ttvars
TraceInv == LinksConsistent /\ NoDanglingLinks /\ NoParallelEdges /\ CombinerShape /\ SinksStay /\ ForgottenCollected
Report == \A i \in 1 .. Len(Traces) : PrintT(<<"REACHED", Traces[i].id, TLCGet(i), Len(Traces[i].ev) + 1>>)
EmptySet == {}
TraceVals == 0 .. 2
TraceMd == {"none"}
=============================================================================
