# usage: VERIF_NOCACHE=1 /venv/bin/python tools/multiseed.py <engine>   -- runs one engine (validation part) with seeds 2, 3, 4 on the current tree: a false-alarm screen for randomised scenarios
import sys, collections, importlib
sys.path.insert(0,'/verif/harness'); sys.path.insert(0,'/verif/harness/engines')
name=sys.argv[1]
m=importlib.import_module(name)
for seed in (2,3,4):
    try: r=m.run('quick',seed,only_validate=True)
    except TypeError: r=m.run('quick',seed)
    c=collections.Counter((v['property'], str(v.get('signature'))[:110]) for v in r.violations)
    print(name, 'seed', seed, r.traces, r.accepted, dict(c))
