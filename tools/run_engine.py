import sys, collections, time
sys.path.insert(0,'/verif/harness'); sys.path.insert(0,'/verif/harness/engines')
import importlib
name=sys.argv[1]
m=importlib.import_module(name)
try:
    r=m.run('quick',1,only_validate=True)
except TypeError:
    r=m.run('quick',1)
print(name, r.traces, r.accepted)
c=collections.Counter((v['property'], tuple(v.get('also') or ()), str(v.get('signature'))[:150]) for v in r.violations)
for k,v in c.most_common(8): print(' ',v,k)
for v in r.violations[:1]: print('   ', v['what'][:400])
