import sys, collections
sys.path.insert(0,'/verif/harness'); sys.path.insert(0,'/verif/harness/engines')
import importlib
m=importlib.import_module(sys.argv[1])
try: r=m.run('quick',1,only_validate=True)
except TypeError: r=m.run('quick',1)
c=collections.Counter()
for v in r.violations:
    c[v['property']]+=1
    for a in v.get('also') or (): c[a+'(also)']+=1
print(sys.argv[1], r.traces, r.accepted, dict(c))
cc=collections.Counter((v['property'], v.get('clause')) for v in r.violations)
print('  ', cc.most_common(12))
