#!/bin/bash
# usage: seed_engine.sh <seed-id> <engine...>
ID=$1; shift
R=/tmp/se_$ID; rm -rf $R; git -C /repo worktree add -f $R HEAD -q; (cd $R && git apply /verif/seeded/$ID/patch.diff) || { echo "no apply"; git -C /repo worktree remove --force $R; exit 1; }
for e in "$@"; do VERIF_REPO=$R VERIF_NOCACHE=1 timeout 2400 /venv/bin/python /verif/tools/run_engine2.py $e 2>&1 | tail -3 | cut -c1-420; done
git -C /repo worktree remove --force $R
