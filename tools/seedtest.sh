#!/bin/bash
# usage: tools/seedtest.sh <seed-id> [tier]
# Applies /verif/seeded/<id>/patch.diff in a scratch worktree of /repo and runs the property's check against that tree
# (VERIF_REPO) from a scratch copy of /verif, so that neither /repo nor /verif's evidence is touched.  Prints one line.
ID=$1; P=${ID%%-*}; TIER=${2:-quick}
V=/tmp/vdev_$ID; R=/tmp/st_$ID
rm -rf $V $R; git -C /repo worktree add -f $R HEAD -q || exit 2
(cd $R && git apply /verif/seeded/$ID/patch.diff) || { echo "$ID patch does not apply"; git -C /repo worktree remove --force $R; exit 2; }
mkdir -p $V; rsync -a --exclude .work --exclude .git --exclude seeded /verif/ $V/
s=$(date +%s)
(cd $V && VERIF_REPO=$R VERIF_NOCACHE=1 timeout 3000 ./check $P --tier $TIER > /tmp/st_$ID.out 2>&1); rc=$?
echo "$ID rc=$rc $(( $(date +%s) - s ))s violations=$(grep -c '^VIOLATION' /tmp/st_$ID.out) :: $(grep '^VIOLATION' /tmp/st_$ID.out | head -1 | cut -c1-80) :: $(tail -1 /tmp/st_$ID.out | cut -c1-80)"
git -C /repo worktree remove --force $R; rm -rf $V
