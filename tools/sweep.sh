#!/bin/bash
# usage: tools/sweep.sh <tier> [seed]   -- runs every check of the manifest in this copy of /verif, one line per property
cd "$(dirname "$0")/.." || exit 2
TIER=${1:-quick}; export VERIF_SEED=${2:-0}
mkdir -p .work
for p in ${PROPS:-C01 C06 C07 C09 C11 C12 C13 C14 C15 C16 C17 C18 C19 C20 C08 C10 C02 C03 C04 C05}; do
  s=$(date +%s)
  ./check $p --tier $TIER > .work/sweep_$p.out 2>&1; rc=$?
  echo "$p tier=$TIER seed=$VERIF_SEED rc=$rc $(( $(date +%s) - s ))s violations=$(grep -c VIOLATION .work/sweep_$p.out) known=$(grep -c KNOWN-FINDING .work/sweep_$p.out) :: $(tail -1 .work/sweep_$p.out | cut -c1-100)"
  grep -E "VIOLATION|MACHINERY" .work/sweep_$p.out | head -3 | cut -c1-200
done
